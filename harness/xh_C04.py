"""C04 — load, save, load loses nothing; a second save changes nothing (CrossHair harness, parameter level)."""
import xhlib
from xhlib import params, record
from xh_C03 import PREFIXES, PKEYS, K2, _mk
import xh_C01, xh_C02
from simfile.sm import SMSimfile
from simfile.ssc import SSCSimfile

LAST = None


B, C = " y\n", ""   # the second and third component are concrete: one symbolic string per obligation travels the whole cycle


def cycle_sm(pfx: int, k1: int, n1: int, k2: int, n2: int, a: str) -> bool:
    """
    pre: 0 <= pfx < len(PREFIXES) and 0 <= k1 < len(PKEYS) and 0 <= k2 < K2 and 0 <= n1 <= 3 and 0 <= n2 <= 3
    pre: len(a) <= 2
    post: _
    """
    global LAST
    stream = list(PREFIXES[pfx]) + [_mk(k1, n1, a, B, C), _mk(k2, n2, B, C, a)]
    sf = SMSimfile.__new__(SMSimfile)
    SMSimfile.__init__(sf)
    try:
        sf._parse(params(stream))
    except ValueError:
        return True  # the text does not load (NOTES with fewer than six components): outside the domain
    ok = xh_C01._check_roundtrip(sf)   # serialize never raises; re-parse equal; second serialization identical
    LAST = xh_C01.LAST
    return ok


def cycle_ssc(pfx: int, k1: int, n1: int, k2: int, n2: int, a: str) -> bool:
    """
    pre: 0 <= pfx < len(PREFIXES) and 0 <= k1 < len(PKEYS) and 0 <= k2 < K2 and 0 <= n1 <= 3 and 0 <= n2 <= 3
    pre: len(a) <= 2
    post: _
    """
    global LAST
    stream = list(PREFIXES[pfx]) + [_mk(k1, n1, a, B, C), _mk(k2, n2, B, C, a)]
    sf = SSCSimfile.__new__(SSCSimfile)
    SSCSimfile.__init__(sf)
    sf._parse(params(stream))
    for ch in sf.charts:
        if "NOTES" not in ch and "NOTES2" not in ch:
            return True  # the property's precondition: every SSC chart contains note data
    ok = xh_C02._check_roundtrip(sf)
    LAST = xh_C02.LAST
    return ok


def corpus(which: int) -> bool:
    """
    pre: 0 <= which < 5
    post: _
    """
    import os
    names = ["nekonabe/nekonabe.sm", "blank/blank.sm", "blank/blank.ssc", "Springtime/Springtime.ssc", "L9/L9.ssc"]
    xhlib.install_real()
    try:
        import simfile
        with open(os.path.join(xhlib.REPO, "testdata", names[which]), encoding="utf-8") as f:
            text = f.read()
        a = simfile.loads(text, strict=False)
        out = str(a)
        b = type(a)(string=out)
        if list(b.items()) != list(a.items()) or len(b.charts) != len(a.charts):
            return False
        for x, y in zip(a.charts, b.charts):
            if sorted(x.items()) != sorted(y.items()):
                return False
        return str(b) == out
    finally:
        xhlib.install_stub()


MSD_ALPHABET = "#:;/\\\n aN"


def chars_cycle(text: str, strict: bool) -> bool:
    """
    pre: len(text) <= 3
    pre: all(ch in MSD_ALPHABET for ch in text)
    pre: not (len(text) > 0 and text[len(text) - 1] == chr(92))
    post: _
    """
    # character level, tiny texts, real lexer and serializer: whenever the text loads, saving and reloading gives an equal
    # simfile and a second save reproduces the first byte for byte
    from msdparser import MSDParserError
    import simfile
    xhlib.install_real()
    try:
        try:
            a = simfile.loads(text, strict=strict)
        except (MSDParserError, ValueError):
            return True   # the text does not load
        for ch in a.charts:
            if type(ch).__name__ == "SSCChart" and "NOTES" not in ch and "NOTES2" not in ch:
                return True
        out = str(a)
        b = type(a)(string=out)
        if list(b.items()) != list(a.items()) or len(b.charts) != len(a.charts):
            return False
        return str(b) == out
    finally:
        xhlib.install_stub()
