"""C12 — time -> beat inverts beat -> time on the tick grid (engine symx; BPM values concrete, DESIGN C12)."""
from fractions import Fraction
from harness import timing_common as tc

PROP = "C12"
MODS = ("simfile.timing", "simfile.timing.engine")
FUNCTIONS = ["TimingEngine.beat_at", "TimingState.beats_until", "Beat.__new__(float) -> round_to_tick", "TimingEngine.time_at",
             "TimingEngine._retime_events (_tagged_times)", "TimingEngine._coalesce_warps"]
ASSUMPTIONS = [
    "floats are modelled as exact reals (DESIGN 2.3); behaviour that depends on an exact double tie is outside the claim",
    "BPM values are concrete per obligation (symbolic BPMs make ToInt(48*t*b/60) non-linear: z3 does not return); positions, lengths, offset and the queried time are symbolic",
    "shim classes stand in for Fraction/float/Decimal/int; validated by replay and the concrete differential run",
]
OUTSIDE = ["symbolic BPM values in the time->beat direction", "IEEE rounding", "more than 3 events besides the first BPM (thorough: 4)", "times beyond |t| <= 1e5 s"]

BPMSETS = {0: [(120,), (7,)], 1: [(120, 7), (90, 2000)], 2: [(120, 7, 2000), (60, 240, 60)]}


def _setup():
    from vlib import symx
    return symx, symx.load_shimmed(MODS)


def _time(symx, V, name, lo=-100000, hi=100000):
    """symbolic time on the 1/den grid: (FloatShim value, z3 Real term)"""
    import z3
    n = symx.fresh_int("n" + name, lo * V["den"], hi * V["den"])
    t = z3.ToReal(n) / V["den"]
    return symx.FloatShim._make(t, (n, V["den"])), t


def _tick_of(symx, beat):
    return symx.tick_index(beat)


def _eq(symx, a, b):
    """z3 Bool: number a == number b (integer form when both have one)"""
    r = (a == b)
    return symx.bterm(r)


def _pause_in_warp(V):
    import z3
    c = [z3.And(p >= k, p <= k + l) for p in V["ks"] + V["kd"] for k, l in zip(V["kw"], V["lw"])]
    return z3.Or(*c) if c else z3.BoolVal(False)


def _domain(symx, V, clean):
    """clean=True: no stop/delay within a closed warp interval (the part of the domain on which the engine is expected to be
    right); clean=False: at least one (where the unchanged tree has the recorded known finding)."""
    import z3
    piw = _pause_in_warp(V)
    symx.CTL.assume(z3.Not(piw) if clean else piw)
    symx.require_feasible()


def _mk(shape, G, bpms, clean, body, budget_s, wraw=None):
    symx, mods = _setup()
    E = mods["simfile.timing.engine"]; Beat = mods["simfile.timing"].Beat
    if not clean and not (shape[3] and (shape[1] or shape[2])):
        r = symx.Result(); r.status = "discharged"; r.reason = "empty family"; r.paths = 0
        return r

    def run():
        V = tc.sym_timing(shape, G, sym_bpm=False, bpm_values=bpms, den=tc.time_unit_den(bpms))
        if wraw:
            # warp lengths written as decimals that are not multiples of 1/48 (0.333, 0.667, ...): the engine is expected to
            # treat each as the nearest tick count, which is what the oracle uses
            from fractions import Fraction as _F
            import z3 as _z3
            for i, w in enumerate(wraw):
                symx.CTL.assume(V["lw"][i] == int(_F(w) * 48 + _F(1, 2)))
            V["wraw"] = list(wraw)
        _domain(symx, V, clean)
        eng = E.TimingEngine(tc.build_td(mods, V))
        return body(symx, mods, E, Beat, V, eng)
    return symx.explore(run, budget_s=budget_s)


def ob_roundtrip(shape, G, bpms, clean, wraw=None, budget_s=120):
    """for every tick q outside every warp's [start,end) and every tag (none, or any of the seven EventTag members, whether or
    not q carries an event of that kind): beat_at(time_at(q, tag)) == q"""
    import z3

    def body(symx, mods, E, Beat, V, eng):
        kq = symx.fresh_int("kq", -G, 3 * G)
        symx.CTL.assume(z3.Not(tc.oracle_in_warp(V, kq)))
        q = Beat(symx.SymInt(kq), 48)
        tags = [None] + list(E.EventTag)
        ti = symx.choose("tg", len(tags))
        back = eng.beat_at(eng.time_at(q) if tags[ti] is None else eng.time_at(q, tags[ti]))
        return _eq(symx, back, tc.tick(kq)), ("roundtrip", ti)
    return _mk(shape, G, bpms, clean, body, budget_s, wraw)


def ob_in_pause(shape, G, bpms, clean, budget_s=120):
    """for every time strictly inside a stop or delay the answer is the paused beat"""
    import z3

    def body(symx, mods, E, Beat, V, eng):
        pauses = [(k, 5, 6) for k in V["ks"]] + [(k, 3, 4) for k in V["kd"]]
        i = symx.choose("pi", len(pauses))
        k, t0, t1 = pauses[i]
        tf, t = _time(symx, V, "t")
        lo = tc.oracle_time(V, k, t0); hi = tc.oracle_time(V, k, t1)
        symx.CTL.assume(symx.bterm(tf > lo), symx.bterm(tf < hi))
        back = eng.beat_at(tf)
        return _eq(symx, back, tc.tick(k)), ("in_pause", i)
    if not (shape[1] or shape[2]):
        from vlib import symx
        r = symx.Result(); r.status = "discharged"; r.reason = "empty family"
        return r
    return _mk(shape, G, bpms, clean, body, budget_s)


def ob_near(shape, G, bpms, clean, budget_s=120):
    """every answer is tick-aligned and its own time span [time_at(r,WARP), time_at(r,STOP_END)] lies within half a tick's
    duration (at the slower of the BPMs on either side of r) of the asked time"""
    import z3

    def body(symx, mods, E, Beat, V, eng):
        tf, t = _time(symx, V, "t")
        back = eng.beat_at(tf)
        aligned, kr = _tick_of(symx, back)
        if not aligned:
            return False, ("near", "not tick aligned")
        lo = tc.oracle_time(V, kr, 0); hi = tc.oracle_time(V, kr, 6)
        b1 = tc.oracle_bpm(V, kr); b0 = tc.oracle_bpm(V, kr - 1)
        bmin = b0 if symx.CTL.branch(b0 <= b1) else b1
        bmin = z3.simplify(bmin)
        if not z3.is_rational_value(bmin):
            # decide which concrete BPM is in force by case split
            for v in V["vb"]:
                if symx.CTL.branch(bmin == v):
                    bmin = v
                    break
        h = Fraction(60, 96) / tc.bpm_number(bmin)
        return z3.And(symx.bterm(tf >= lo - h), symx.bterm(tf <= hi + h)), ("near",)
    return _mk(shape, G, bpms, clean, body, budget_s)


def ob_warp_instant(shape, G, bpms, clean, wraw=None, budget_s=120):
    """at the time a warp segment starts: tag WARP -> the segment's start; default -> the furthest beat reached at that time
    (segment end, or the first stop/delay at or after the start if that comes first)"""
    import z3

    def body(symx, mods, E, Beat, V, eng):
        nw = len(V["kw"])
        i = symx.choose("wi", nw)
        ws = V["kw"][i]
        # ws must be the start of a maximal segment: not inside/touching an earlier warp
        for j in range(nw):
            if j != i:
                symx.CTL.assume(z3.Not(z3.And(V["kw"][j] <= ws, ws <= V["kw"][j] + V["lw"][j], z3.Or(V["kw"][j] < ws, j < i))))
        symx.require_feasible()
        # end of the union segment starting at ws (<= 3 warps: fixpoint by repeated extension)
        we = ws + V["lw"][i]
        for _ in range(nw):
            for j in range(nw):
                ej = V["kw"][j] + V["lw"][j]
                we = ej if symx.CTL.branch(z3.And(V["kw"][j] >= ws, V["kw"][j] <= we, ej > we)) else we
        far = we
        for p in V["ks"] + V["kd"]:
            far = p if symx.CTL.branch(z3.And(p >= ws, p < far)) else far
        t = eng.time_at(Beat(symx.SymInt(ws), 48), E.EventTag.WARP)
        # the two lookups in either order, optionally after an unrelated earlier lookup: the answer must not depend on
        # the engine's lookup history
        order = symx.choose("order", 3)
        if order == 0:
            a = eng.beat_at(t, E.EventTag.WARP)
            b = eng.beat_at(t)
        elif order == 1:
            b = eng.beat_at(t)
            a = eng.beat_at(t, E.EventTag.WARP)
        else:
            eng.beat_at(t + 1000)
            b = eng.beat_at(t)
            a = eng.beat_at(t, E.EventTag.WARP)
        return z3.And(_eq(symx, a, tc.tick(ws)), _eq(symx, b, tc.tick(far))), ("warp_instant", i)
    if not shape[3]:
        from vlib import symx
        r = symx.Result(); r.status = "discharged"; r.reason = "empty family"
        return r
    return _mk(shape, G, bpms, clean, body, budget_s, wraw)


def ob_monotone(shape, G, bpms, clean, budget_s=120):
    """t1 <= t2  =>  beat_at(t1) <= beat_at(t2)"""
    def body(symx, mods, E, Beat, V, eng):
        tf1, t1 = _time(symx, V, "t"); tf2, t2 = _time(symx, V, "t2")
        symx.CTL.assume(symx.bterm(tf1 <= tf2))
        a = eng.beat_at(tf1); b = eng.beat_at(tf2)
        return symx.bterm(a <= b), ("monotone",)
    return _mk(shape, G, bpms, clean, body, budget_s)


def ob_unrelated(shape, G, bpms, clean, budget_s=120):
    """inserting a redundant BPM change earlier in the timing data does not change beat_at"""
    import z3
    symx, mods = _setup()
    E = mods["simfile.timing.engine"]; Beat = mods["simfile.timing"].Beat

    def run():
        V = tc.sym_timing(shape, G, sym_bpm=False, bpm_values=bpms, den=tc.time_unit_den(bpms))
        _domain(symx, V, clean)
        nb = shape[0]
        kx = symx.fresh_int("kx", 1, G)
        j = symx.choose("jx", nb + 1)
        if j > 0:
            symx.CTL.assume(kx > V["kb"][j - 1])
        if j < nb:
            symx.CTL.assume(kx < V["kb"][j])
        symx.require_feasible()
        tf, t = _time(symx, V, "t")
        e1 = E.TimingEngine(tc.build_td(mods, V))
        e2 = E.TimingEngine(tc.build_td(mods, V, extra_bpm=(j, kx, V["vb"][j])))
        a = e1.beat_at(tf); b = e2.beat_at(tf)
        same = _eq(symx, a, b)
        if symx.CTL.branch(same):
            return True, ("unrelated", j)
        # Not a violation when t is an exact half-tick tie (rounding half-even from two different bases may then pick
        # either neighbour; in doubles such ties are noise - DESIGN 2.3): the two answers are adjacent ticks and t is
        # exactly midway between the end of the earlier and the start of the later one.
        _, ka = _tick_of(symx, a); _, kb = _tick_of(symx, b)
        lo, hi = (ka, kb) if symx.CTL.branch(ka <= kb) else (kb, ka)
        if not symx.CTL.branch(hi == lo + 1):
            return False, ("unrelated", j, "differs by more than a tick")
        tie = symx.bterm(tc.oracle_time(V, lo, 6) + tc.oracle_time(V, hi, 0) == 2 * tf)
        return tie, ("unrelated", j, "differs")
    if not clean and not (shape[3] and (shape[1] or shape[2])):
        r = symx.Result(); r.status = "discharged"; r.reason = "empty family"
        return r
    return symx.explore(run, budget_s=budget_s)


FAMS = ["ob_roundtrip", "ob_in_pause", "ob_near", "ob_warp_instant", "ob_monotone", "ob_unrelated"]


def _applicable(f, s):
    if f == "ob_in_pause" and not (s[1] or s[2]):
        return False
    if f == "ob_warp_instant" and not s[3]:
        return False
    return True


def obligations(tier):
    obs = []
    G, nmax, b = (12, 2, 150) if tier == "quick" else (24, 3, 1500)
    for s in tc.shapes(nmax):
        for bi, bp in enumerate(BPMSETS[s[0]]):
            if tier == "quick" and bi > 0 and sum(s) > 1:
                continue
            for f in FAMS:
                if not _applicable(f, s):
                    continue
                for clean in (True, False):
                    if not clean and not (s[3] and (s[1] or s[2])):
                        continue
                    obs.append(dict(name=f"{f[3:]}{s}/bpm{bp}/{'clean' if clean else 'pause-in-warp'}/G{G}", func=f, args=(s, G, bp, clean), budget_s=b,
                                    bounds=f"shape {s}, BPM values {bp} concrete, ticks 0..{G}, lengths/offset/time symbolic; domain: "
                                           + ("no stop/delay within a closed warp interval" if clean else "some stop/delay within a closed warp interval")))
    if tier == "quick":
        # a few 3-event shapes that mix kinds
        for s in [(1, 1, 0, 1), (0, 1, 1, 1), (1, 0, 0, 2)]:
            bp = BPMSETS[s[0]][0]
            for f in ("ob_roundtrip", "ob_warp_instant"):
                obs.append(dict(name=f"{f[3:]}{s}/bpm{bp}/clean/G{G}", func=f, args=(s, G, bp, True), budget_s=b, bounds=f"shape {s}, BPM {bp}, clean domain"))
        # BPM values that are not multiples of 1/48 (a rounding of the BPM itself shows only after many ticks): far queries
        for s, bp in (((0, 0, 0, 0), ("1.01",)), ((1, 0, 0, 0), ("1.01", "7.77")), ((0, 1, 0, 0), ("150.01",))):
            for f in ("ob_roundtrip", "ob_near"):
                obs.append(dict(name=f"{f[3:]}{s}/bpm{bp}/clean/G96", func=f, args=(s, 96, bp, True), budget_s=b, bounds=f"shape {s}, BPM {bp} (not multiples of 1/48), ticks 0..96, queries up to 288 ticks"))
        # warp lengths that are not multiples of 1/48 when written as decimals
        for s, wr in (((0, 0, 0, 1), ("0.333",)), ((0, 0, 0, 2), ("0.667", "0.083")), ((0, 1, 0, 1), ("0.167",))):
            bp = BPMSETS[s[0]][0]
            for f in ("ob_roundtrip", "ob_warp_instant"):
                obs.append(dict(name=f"{f[3:]}{s}/bpm{bp}/warp-lengths{wr}/G48", func=f, args=(s, 48, bp, True, wr), budget_s=b,
                                bounds=f"shape {s}, BPM {bp}, warp lengths given as the decimals {wr} (not tick aligned), ticks 0..48"))
        # three warps in every arrangement (chains: nested, overlapping, touching, extended then extended again)
        s = (0, 0, 0, 3)
        bp = BPMSETS[0][0]
        for f in ("ob_roundtrip", "ob_warp_instant", "ob_monotone"):
            obs.append(dict(name=f"{f[3:]}{s}/bpm{bp}/clean/G8", func=f, args=(s, 8, bp, True), budget_s=b, bounds=f"shape {s} (three warps), BPM {bp}, ticks 0..8"))
    return obs


def signature(ob, res):
    clean = ob["args"][3]
    return ob["func"] + (":clean" if clean else ":pause-in-warp")


def replay(data):
    import simfile
    from simfile.timing import Beat
    from simfile.timing.engine import TimingEngine, EventTag
    m = data["model"]; func = data["func"]
    shape = tuple(data["args"][0]); bpms = data["args"][2]
    mm = dict(m)
    for i, v in enumerate(bpms):
        mm[f"b{i}"] = str(v)
    den = tc.time_unit_den(bpms)
    mm["__den__"] = str(den)
    c = tc.model_timing(mm, shape)
    if len(data["args"]) > 4 and data["args"][4]:   # warp lengths were given as decimals: use exactly those in the replay
        c["warps"] = [(k, Fraction(w)) for (k, _), w in zip(c["warps"], data["args"][4])]
    m = dict(m)
    for k in ("t", "t2"):
        if "n" + k in m:
            m[k] = str(Fraction(m["n" + k]) / den)
    g = lambda n, d="0": Fraction(m.get(n, d))
    td = tc.real_td(c)
    eng = TimingEngine(td)
    tick = Fraction(1, 48)
    if func == "ob_roundtrip":
        q = Beat(int(g("kq")), 48)
        tags = [None] + list(EventTag)
        tg = tags[int(g("tg"))]
        back = eng.beat_at(eng.time_at(q) if tg is None else eng.time_at(q, tg))
        return back != q, f"beat_at(time_at({q!r}, {tg})) = {back!r}; timing={c}"
    if func == "ob_in_pause":
        t = float(g("t")); back = eng.beat_at(t)
        pauses = [p for p, _ in c["stops"]] + [p for p, _ in c["delays"]]
        exp = pauses[int(g("pi"))]
        tags = ([(5, 6)] * len(c["stops"]) + [(3, 4)] * len(c["delays"]))[int(g("pi"))]
        lo, hi = tc.exact_time(c, exp, tags[0]), tc.exact_time(c, exp, tags[1])
        if not (lo + Fraction(1, 10**6) < Fraction(t) < hi - Fraction(1, 10**6)):
            return False, "time too close to the pause boundary for a float replay"
        return Fraction(back) != exp, f"beat_at({t!r}) = {back!r}, paused beat {exp} spans [{float(lo)},{float(hi)}]; timing={c}"
    if func == "ob_near":
        t = float(g("t")); r = Fraction(eng.beat_at(t))
        if (r * 48).denominator != 1:
            return True, f"beat_at({t!r}) = {r} not tick aligned"
        lo, hi = tc.exact_time(c, r, 0), tc.exact_time(c, r, 6)
        h = Fraction(60, 96) / min(tc.exact_bpm(c, r), tc.exact_bpm(c, r - tick))
        ok = lo - h - Fraction(1, 10**7) <= Fraction(t) <= hi + h + Fraction(1, 10**7)
        return not ok, f"beat_at({t!r}) = {r}; that beat spans [{float(lo)},{float(hi)}], half tick {float(h)}; timing={c}"
    if func == "ob_warp_instant":
        i = int(g("wi")); ws = c["warps"][i][0]
        U = tc.exact_union(c["warps"])
        seg = [u for u in U if u[0] == ws]
        if not seg:
            return False, "not a segment start"
        far = seg[0][1]
        for p, _ in c["stops"] + c["delays"]:
            if ws <= p < far:
                far = p
        t = eng.time_at(Beat(ws), EventTag.WARP)
        order = int(g("order"))
        if order == 0:
            a = eng.beat_at(t, EventTag.WARP); b = eng.beat_at(t)
        elif order == 1:
            b = eng.beat_at(t); a = eng.beat_at(t, EventTag.WARP)
        else:
            eng.beat_at(t + 1000); b = eng.beat_at(t); a = eng.beat_at(t, EventTag.WARP)
        return (a != ws or b != far), f"at time {t!r} of warp start {ws}: beat_at(WARP)={a!r} (want {ws}), beat_at()={b!r} (want {far}); timing={c}"
    if func == "ob_monotone":
        t1, t2 = float(g("t")), float(g("t2"))
        a, b = eng.beat_at(t1), eng.beat_at(t2)
        return (t1 <= t2 and a > b), f"beat_at({t1!r})={a!r} > beat_at({t2!r})={b!r}; timing={c}"
    if func == "ob_unrelated":
        j = int(g("jx")); kx = g("kx") / 48; t = float(g("t"))
        c2 = {k: (list(v) if isinstance(v, list) else v) for k, v in c.items()}
        c2["bpms"].insert(j + 1, (kx, c["bpms"][j][1]))
        e2 = TimingEngine(tc.real_td(c2))
        a, b = eng.beat_at(t), e2.beat_at(t)
        return a != b, f"beat_at({t!r}) = {a!r}, with a redundant BPM change at beat {kx}: {b!r}; timing={c}"
    return False, "unknown obligation"


def main(tier):
    from vlib import core
    chk = core.Check(PROP, tier, "harness." + PROP, FUNCTIONS,
                     bounds={"quick": "<=2 events besides the first BPM (plus three mixed 3-event shapes), tick grid 0..12, concrete BPM sets " + str(BPMSETS),
                             "thorough": "<=3 events, tick grid 0..24, concrete BPM sets " + str(BPMSETS)}[tier],
                     assumptions=ASSUMPTIONS, outside=OUTSIDE)
    chk.add_results(core.run_obligations("harness." + PROP, obligations(tier)))
    return chk.finish(signature)
