"""C02 — SSC serialize -> parse round trip (engine xh)."""
from vlib import xhprop

PROP = "C02"
FILE = "xh_C02.py"
FUNCTIONS = ["SSCChart.serialize", "SSCChart._parse", "SSCSimfile._parse", "BaseSimfile.serialize", "BaseCharts.serialize", "item_property('NOTES', alias='NOTES2')",
             "simfile.loads / _detect_ssc (autodetect obligation, real tokenizer, concrete values)"]
ASSUMPTIONS = [
    "escapes_real[...] obligations: exhaustive concrete enumeration with the REAL msdparser serializer and lexer (not solver-decided; the parameter-level obligations replace MSDParameter by a recorder and cannot see escaping)",
    "msdparser is the environment (StubParam recorder, see C01)",
    "object identity among equal strings is nondeterministic: each value is either a fresh symbolic string or the same object as the note data (alias bit); replay uses ''/one-character strings where CPython really aliases",
    "values <=2..3 characters, any Unicode; chart keys by symbolic index from 10 representatives; NOTES/NOTES2 at every position",
]
OUTSIDE = ["character-level escaping (msdparser)", "more than 3 chart properties, more than 2 charts", "longer strings"]


def obligations(tier):
    T = 90 if tier == "quick" else 900
    obs = [dict(name="selftest_strip", func="selftest_strip", file="xhlib.py", timeout=60, bounds="engine self-test")]
    for npos in range(3):
        for nk in (False, True):
            obs.append(dict(name=f"chart3[npos={npos},notes2={nk}]", func="chart3", pre=f"npos == {npos} and nk == {nk}", timeout=T,
                            bounds="chart with 2 properties (keys by symbolic index from 10) + note data at a fixed position; values <=2 any Unicode, alias bits, second value may be None"))
    for w, ns, nc in [(w, ns, nc) for w in (False, True) for ns in (False, True) for nc in (False, True)]:
        obs.append(dict(name=f"chart_multi[{w},simfile-level None={ns},chart-level None={nc}]", func="chart_multi", pre=f"which == {w} and ns == {ns} and nc == {nc}", timeout=2 * T, bounds="ATTACKS/DISPLAYBPM on simfile and chart level, value <=3 symbolic (split on ':') or key-only (None) on either level"))
    for r in range(8):
        obs.append(dict(name=f"simfile_props[k0%8=={r}]", func="simfile_props", pre=f"k0 % 8 == {r}", timeout=T, bounds="simfile key by symbolic index over the literal-derived key set, values <=3 (may be None), 0..2 charts"))
    for op in range(11):
        obs.append(dict(name=f"chart_edit_after_serialize[op{op}]", func="chart_edit_after_serialize", pre=f"op == {op}", timeout=T,
                        bounds="a chart / the simfile mapping, possibly serialized once before, edited through one of 11 mapping operations (move_to_end, pop, popitem, setdefault, update, "
                               "item assignment / deletion, clear-and-refill; key by symbolic index, value <=2), then the round trip on the object as it stands"))
    for npos in range(3):
        obs.append(dict(name=f"chart_from_str_path[npos={npos}]", func="chart_from_str_path", pre=f"npos == {npos}", timeout=T, bounds="stand-alone chart parsing stops at the note data"))
    obs.append(dict(name="blank_and_corpus", func="blank_and_corpus", timeout=T, bounds="blank SSC simfile + blank chart (also with empty note data), both SSC corpus files"))
    for v in range(3):
        for r in range(4):
            obs.append(dict(name=f"autodetect[v{v},k%4=={r}]", func="autodetect", pre=f"v == {v} and k % 4 == {r}", timeout=T, bounds="VERSION first, one more key by symbolic index, concrete values, real tokenizer"))
    return obs


def signature(ob, res):
    cex = res.get("cex") or {}
    if ob["func"] in ("chart3", "chart_from_str_path") and (cex.get("a0") or cex.get("a1")):
        return ob["func"] + ":aliased-value"
    return ob["func"]


def replay(data):
    from vlib import xh
    if data.get("func") == "ob_escapes":
        from harness import escconf
        return escconf.replay(data)
    return xh.replay("xh_C02", data)


def main(tier):
    from vlib import core
    from harness import escconf
    extra = core.run_obligations("harness.escconf", escconf.obligations("ssc"))
    return xhprop.main(PROP, tier, FILE, obligations(tier), FUNCTIONS, ASSUMPTIONS, OUTSIDE, signature, extra_results=extra, extra_chars=(1 if tier == "thorough" else 0),
                       bounds="values <=2..3 characters, <=3 chart properties incl. note data at every position, <=2 charts")
