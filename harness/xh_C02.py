"""C02 — SSC simfile: serialize -> parse round trip at parameter level, object identity nondeterministic (CrossHair harness)."""
import xhlib
from xhlib import L1, L2, L3, L4
from xhlib import REC, StubParam, record, params, gaps_blank, SSC_KEYS
from simfile.ssc import SSCSimfile, SSCChart

LAST = None
MULTI = ("ATTACKS", "DISPLAYBPM")
CHART_KEYS = ["STEPSTYPE", "DESCRIPTION", "CREDIT", "METER", "BPMS", "ATTACKS", "DISPLAYBPM", "ZZFRESH", "CHARTNAME", "OFFSET",
              "NOTESKIN", "NOTESX", "XNOTES", "NOTES2X", "NOTEDATAX", "NOTE"]
NOTES_KEYS = ["NOTES", "NOTES2"]


def _reparse(stream):
    back = SSCSimfile.__new__(SSCSimfile)
    SSCSimfile.__init__(back)
    back._parse(params(stream))
    return back


def _expected_chart_items(ch):
    nk = "NOTES" if "NOTES" in ch else "NOTES2"
    items = [(k, v) for k, v in ch.items() if k != nk]
    return items + [(nk, ch[nk])]


def _comp_ok(k, v, comp):
    if comp[0] != k:
        return False
    if v is None:
        return len(comp) == 1
    if k in MULTI:
        return tuple(comp[1:]) == tuple(v.split(":"))
    return tuple(comp[1:]) == (v,)


def _check_roundtrip(sf) -> bool:
    global LAST
    before = (list(sf.items()), [list(c.items()) for c in sf.charts])
    stream, text, gaps, idxs = record(sf)
    if before != (list(sf.items()), [list(c.items()) for c in sf.charts]):
        LAST = ("serializing changed the simfile (keys, order or values)",)
        return False
    items = list(sf.items())
    LAST = ("stream", stream)
    if idxs != list(range(len(stream))) or not gaps_blank(gaps):
        LAST = ("layout", text)
        return False
    pos = 0
    for (k, v) in items:
        if pos >= len(stream) or not _comp_ok(k, v, stream[pos]):
            LAST = ("simfile property", k, stream[pos] if pos < len(stream) else None)
            return False
        pos += 1
    for ch in sf.charts:
        exp = _expected_chart_items(ch)
        if pos >= len(stream) or tuple(stream[pos]) != ("NOTEDATA", ""):
            LAST = ("chart does not start with NOTEDATA", pos)
            return False
        pos += 1
        for (k, v) in exp:
            if pos >= len(stream) or not _comp_ok(k, v, stream[pos]):
                LAST = ("chart property dropped, renamed or out of order", k, [c[0] for c in stream])
                return False
            pos += 1
    if pos != len(stream):
        LAST = ("extra parameters", pos, len(stream))
        return False
    back = _reparse(stream)
    if list(back.items()) != items or len(back.charts) != len(sf.charts):
        LAST = ("reparse simfile items", list(back.items()), items)
        return False
    for a, b in zip(back.charts, sf.charts):
        if list(a.items()) != _expected_chart_items(b):
            LAST = ("reparse chart", list(a.items()), _expected_chart_items(b))
            return False
    stream2, text2, _, _ = record(back)
    if stream2 != stream or text2 != text:
        LAST = ("second serialization differs",)
        return False
    # a chart that already ends with its note data compares equal after the round trip
    if all(list(c.items()) == _expected_chart_items(c) for c in sf.charts) and back != sf:
        LAST = ("not equal although charts end with note data",)
        return False
    return True


def chart3(npos: int, nk: bool, k0: int, v0: str, v1: str, notes: str, a0: bool, a1: bool, n1: bool) -> bool:
    """
    pre: 0 <= npos <= 2 and 0 <= k0 < len(CHART_KEYS)
    pre: CHART_KEYS[k0] not in MULTI and CHART_KEYS[k0] != "ZZFRESH"
    pre: len(v0) <= L2 and len(v1) <= L2 and len(notes) <= L2
    post: _
    """
    # a0/a1: the property's value IS the note data object (CPython interns '' and one-character strings, so equal
    # strings may or may not be identical objects: both are explored); n1: second value is None (key-only)
    sf = SSCSimfile(string="")
    sf["VERSION"] = "0.83"
    ch = SSCChart()
    vals = [notes if a0 else v0, None if n1 else (notes if a1 else v1)]
    pairs = [(CHART_KEYS[k0], vals[0]), ("ZZFRESH", vals[1])]
    pairs.insert(npos, (NOTES_KEYS[1] if nk else NOTES_KEYS[0], notes))
    for k, v in pairs:
        ch[k] = v
    sf.charts.append(ch)
    return _check_roundtrip(sf)


def chart_multi(which: bool, v: str, npos: int, alias: bool, ns: bool, nc: bool) -> bool:
    """
    pre: len(v) <= L3 and 0 <= npos <= 2
    post: _
    """
    # ns / nc: the multi-value property is key-only (None) on simfile / chart level
    sf = SSCSimfile(string="")
    sf["VERSION"] = "0.83"
    sf["ATTACKS" if which else "DISPLAYBPM"] = None if ns else v
    ch = SSCChart()
    notes = "0000"
    pairs = [("DISPLAYBPM" if which else "ATTACKS", None if nc else v), ("CREDIT", notes if alias else "c")]
    pairs.insert(npos, ("NOTES", notes))
    for k, val in pairs:
        ch[k] = val
    sf.charts.append(ch)
    return _check_roundtrip(sf)


def simfile_props(k0: int, v0: str, v1: str, n0: bool, ncharts: int, alias: bool) -> bool:
    """
    pre: 0 <= k0 < len(SSC_KEYS) and 0 <= ncharts <= 2
    pre: SSC_KEYS[k0] not in MULTI
    pre: len(v0) <= L3 and len(v1) <= L3
    post: _
    """
    sf = SSCSimfile(string="")
    sf["VERSION"] = v1
    sf[SSC_KEYS[k0]] = None if n0 else v0
    for i in range(ncharts):
        ch = SSCChart()
        ch["STEPSTYPE"] = "dance-single"
        ch["NOTES" if i == 0 else "NOTES2"] = v0 if alias else "0000"
        ch["DESCRIPTION"] = v0
        sf.charts.append(ch)
    return _check_roundtrip(sf)


CHART_OPS = 11


def chart_edit_after_serialize(op: int, k: int, v: str, pre_ser: bool, on_simfile: bool) -> bool:
    """
    pre: 0 <= op < CHART_OPS and 0 <= k <= 2 and len(v) <= L2
    post: _
    """
    # a chart (or the simfile's own mapping) that may already have been serialized once is edited through the mapping API -
    # including the operations that do not go through __setitem__/__delitem__ (move_to_end, pop, popitem, setdefault,
    # update, clear) - and must still round-trip as it stands now
    sf = SSCSimfile(string="")
    sf["VERSION"] = "0.83"
    sf["TITLE"] = "t"
    sf["ARTIST"] = "a"
    ch = SSCChart()
    for key, val in (("STEPSTYPE", "dance-single"), ("CREDIT", "c"), ("NOTES", "0000"), ("CHARTSTYLE", "s")):
        ch[key] = val
    sf.charts.append(ch)
    if pre_ser:
        record(sf)
    m = sf if on_simfile else ch
    key = (["VERSION", "TITLE", "ARTIST"] if on_simfile else ["STEPSTYPE", "CREDIT", "CHARTSTYLE"])[k]
    if op == 0:
        m.move_to_end(key)
    elif op == 1:
        m.move_to_end(key, last=False)
    elif op == 2:
        m.pop(key)
    elif op == 3:
        if on_simfile or True:
            last = next(reversed(m))
            if last not in ("NOTES",):
                m.popitem()
    elif op == 4:
        m.popitem(last=False)
    elif op == 5:
        m.setdefault("ZZFRESH", v)
    elif op == 6:
        m.update({key: v, "ZZFRESH": v})
    elif op == 7:
        m[key] = v
    elif op == 8:
        del m[key]
    elif op == 9:
        if not on_simfile:
            m.move_to_end("NOTES", last=False)
    else:
        items = [(a, b) for a, b in m.items()]
        m.clear()
        for a, b in reversed(items):
            m[a] = v if a == key else b
    return _check_roundtrip(sf)


def chart_from_str_path(npos: int, nk: bool, v0: str, notes: str, a0: bool) -> bool:
    """
    pre: 0 <= npos <= 2 and len(v0) <= L2 and len(notes) <= L2
    post: _
    """
    # stand-alone chart parsing (SSCChart.from_str goes through SSCChart._parse): it must stop exactly at the note data
    ch = SSCChart()
    pairs = [("STEPSTYPE", notes if a0 else v0), ("CREDIT", "x")]
    nkey = NOTES_KEYS[1] if nk else NOTES_KEYS[0]
    pairs.insert(npos, (nkey, notes))
    for k, v in pairs:
        ch[k] = v
    stream, text, gaps, idxs = record(ch)
    if not gaps_blank(gaps):
        return False
    back = SSCChart()
    it = params(stream + [("AFTER", "z")])
    back._parse(it)
    exp = [(k, v) for k, v in pairs if k != nkey] + [(nkey, notes)]
    return list(back.items()) == exp and [p.key for p in it] == ["AFTER"]


def blank_and_corpus(which: int) -> bool:
    """
    pre: 0 <= which < 4
    post: _
    """
    import os
    if which == 0:
        sf = SSCSimfile.blank()
        sf.charts.append(SSCChart.blank())
    elif which == 1:
        sf = SSCSimfile.blank()
        c = SSCChart.blank(); c.notes = ""   # blank chart with empty note data: CPython interns '' -> every empty value is the same object
        sf.charts.append(c)
    else:
        xhlib.install_real()
        try:
            name = ["Springtime/Springtime.ssc", "L9/L9.ssc"][which - 2]
            with open(os.path.join(xhlib.REPO, "testdata", name), encoding="utf-8") as f:
                sf = SSCSimfile(file=f)
        finally:
            xhlib.install_stub()
    return _check_roundtrip(sf)


def autodetect(k: int, v: int) -> bool:
    """
    pre: 0 <= k < len(SSC_KEYS) and 0 <= v < 3
    post: _
    """
    xhlib.install_real()
    try:
        import simfile
        sf = SSCSimfile(string="")
        sf["VERSION"] = "0.83"
        sf[SSC_KEYS[k]] = ["", "x:y;z", "a\\b//c\nd"][v]
        ch = SSCChart.blank()
        sf.charts.append(ch)
        text = str(sf)
        back = simfile.loads(text)
        return type(back) is SSCSimfile and back == sf and str(back) == text
    finally:
        xhlib.install_stub()
