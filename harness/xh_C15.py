"""C15 — split timing: chart timing is used all-or-nothing under one rule (CrossHair harness over the configuration space)."""
from decimal import Decimal
import xhlib
from simfile.sm import SMSimfile, SMChart
from simfile.ssc import SSCSimfile, SSCChart
from simfile.timing import TimingData, BeatValues
from simfile.timing.displaybpm import displaybpm, StaticDisplayBPM, RangeDisplayBPM, RandomDisplayBPM

LAST = None
VERSIONS = [None, "", "0.69", "0.7", "0.70", "0.83", "1.0"]
SPLIT_OK = [False, False, False, True, True, True, True]
TIMING_KEYS = ["BPMS", "STOPS", "DELAYS", "TIMESIGNATURES", "TICKCOUNTS", "COMBOS", "WARPS", "SPEEDS", "SCROLLS", "FAKES", "LABELS"]
# concrete, distinct values per source so that mixing is observable
SF_VALS = {"BPMS": "0.000=100.000,\n4.000=150.000", "STOPS": "1.000=0.100", "DELAYS": "2.000=0.200", "WARPS": "3.000=1.000", "OFFSET": "0.100"}
CH_VALS = {"BPMS": "0.000=200.000", "STOPS": "5.000=0.500", "DELAYS": "6.000=0.600", "WARPS": "7.000=2.000", "OFFSET": "-0.700",
           "TIMESIGNATURES": "0.000=3=4", "TICKCOUNTS": "0.000=2", "COMBOS": "0.000=2", "SPEEDS": "0.000=2.000=0.000=0", "SCROLLS": "0.000=2.000",
           "FAKES": "1.000=1.000", "LABELS": "0.000=x"}
DBPM = [None, "", "120", "100:200", "*", "abc", "1:x", " 90 "]


def _state(d, key, st, vals):
    if st == 1:
        d[key] = ""
    elif st == 2:
        d[key] = vals[key]


def _build(ssc: bool, vi: int, ck: int, st, so: int, co: int, sb: int):
    sf = SSCSimfile(string="") if ssc else SMSimfile(string="")
    if ssc and VERSIONS[vi] is not None:
        sf["VERSION"] = VERSIONS[vi]
    _state(sf, "BPMS", sb, SF_VALS)
    for k in ("STOPS", "DELAYS", "WARPS"):
        sf[k] = SF_VALS[k]
    _state(sf, "OFFSET", so, SF_VALS)
    chart = None
    if ck == 1:
        chart = SMChart.blank()
    elif ck == 2:
        chart = SSCChart()
        chart["STEPSTYPE"] = "dance-single"
        for key, s in zip(TIMING_KEYS, st):
            _state(chart, key, s, CH_VALS)
        _state(chart, "OFFSET", co, CH_VALS)
        chart["NOTES"] = "0000"
    return sf, chart


def _use_chart(ssc, vi, ck, st):
    return ssc and ck == 2 and SPLIT_OK[vi] and any(s == 2 for s in st)


def timing(ssc: bool, vi: int, ck: int, s0: int, s1: int, s2: int, s3: int, s4: int, s5: int, s6: int, s7: int, s8: int, s9: int, s10: int, so: int, co: int, sb: int) -> bool:
    """
    pre: 0 <= vi < len(VERSIONS) and 0 <= ck <= 2 and 0 <= so <= 2 and 0 <= co <= 2 and 0 <= sb <= 2
    pre: all(0 <= s <= 2 for s in (s0, s1, s2, s3, s4, s5, s6, s7, s8, s9, s10))
    post: _
    """
    global LAST
    st = [s0, s1, s2, s3, s4, s5, s6, s7, s8, s9, s10]
    sf, chart = _build(ssc, vi, ck, st, so, co, sb)
    use = _use_chart(ssc, vi, ck, st)
    td = TimingData(sf, chart)
    src = chart if use else sf
    want = {k: BeatValues.from_str(src.get(k)) for k in ("BPMS", "STOPS", "DELAYS", "WARPS")}
    want_off = Decimal(src.get("OFFSET") or 0)
    got = {"BPMS": td.bpms, "STOPS": td.stops, "DELAYS": td.delays, "WARPS": td.warps}
    for k in want:
        if list(got[k]) != list(want[k]):
            LAST = ("field", k, list(got[k]), list(want[k]), "use_chart", use)
            return False
    if td.offset != want_off:
        LAST = ("offset", td.offset, want_off)
        return False
    return True


def _expected_display(src, ignore):
    v = src.get("DISPLAYBPM")
    if v is not None and not ignore:
        if v == "*":
            return RandomDisplayBPM()
        parts = v.split(":")
        try:
            if len(parts) >= 2:
                return RangeDisplayBPM(min=Decimal(parts[0]), max=Decimal(":".join(parts[1:])))
            return StaticDisplayBPM(value=Decimal(v))
        except Exception:
            pass
    bpms = [e.value for e in BeatValues.from_str(src["BPMS"])]
    if len(bpms) == 1:
        return StaticDisplayBPM(bpms[0])
    return RangeDisplayBPM(min=min(bpms), max=max(bpms))


def display(ssc: bool, vi: int, ck: int, cs: int, which: int, sd: int, cd: int, ignore: bool, nochart_arg: bool) -> bool:
    """
    pre: 0 <= vi < len(VERSIONS) and 0 <= ck <= 2 and 0 <= cs <= 2 and 0 <= which < len(TIMING_KEYS)
    pre: 0 <= sd < len(DBPM) and 0 <= cd < len(DBPM)
    post: _
    """
    global LAST
    st = [0] * 11
    st[which] = cs
    st[0] = 2  # the chart has a non-empty BPMS whenever it can become the source (domain of the displayed-BPM clause)
    sf, chart = _build(ssc, vi, ck, st, 2, 2, 2)
    if DBPM[sd] is not None:
        sf["DISPLAYBPM"] = DBPM[sd]
    if ck == 2 and DBPM[cd] is not None:
        chart["DISPLAYBPM"] = DBPM[cd]
    use = _use_chart(ssc, vi, ck, st)
    src = chart if use else sf
    if ck == 0 and nochart_arg:
        got = displaybpm(sf, ignore_specified=ignore)
    elif ck == 1:
        got = displaybpm(sf, chart, ignore_specified=ignore)  # an SM chart is never a timing source
    elif ck == 0:
        got = displaybpm(sf, SSCChart(), ignore_specified=ignore)
    else:
        got = displaybpm(sf, chart, ignore_specified=ignore)
    exp = _expected_display(src, ignore)
    if type(got) is not type(exp) or got != exp:
        LAST = ("displaybpm", got, exp, "use_chart", use)
        return False
    return True
