"""C14 — beats are exact fractions that snap to the 1/48 grid only from inexact input (engine symx)."""
import ast, os
from fractions import Fraction

PROP = "C14"
MODS = ("simfile.timing",)
FUNCTIONS = ["Beat.__new__", "Beat.round_to_tick", "Beat.from_str", "Beat.__str__", "Beat arithmetic overrides", "BeatValues.from_str",
             "BeatValues.__str__", "TimingData.__init__"]
ASSUMPTIONS = [
    "floats are modelled as exact reals; '.3f' rendering is modelled as round-half-even of 1000*x (exact for tick multiples: the ties k = 3 mod 6 are binary-exact eighths) within |beat| <= 1e7",
    "a number's rendering never contains , = : or white space (token strings)",
    "Fraction/Decimal arithmetic itself is the shim's (trusted base, validated by the differential run); what is executed from the repository is Beat's constructor, rounding, text forms and operator overrides",
]
OUTSIDE = ["real repr/format of doubles", "Fraction.__hash__, pickling", "__pow__ with non-integer exponents"]

DENS = [1, 2, 3, 7, 48, 1000]
DIVISORS = [1, -1, 4, -5, 7, 96]
BINOPS = ["+", "-", "*", "/", "%", "divmod"]
OPERAND_KINDS = ["beat", "int", "fraction"]


def _setup():
    from vlib import symx
    return symx, symx.load_shimmed(MODS)


def ob_construct_exact(budget_s=60):
    """Beat(n) == n; Beat(n, d) == n/d; Beat(Fraction(n, d)) == n/d — no snapping"""
    import z3
    symx, mods = _setup()
    Beat = mods["simfile.timing"].Beat

    def run():
        n = symx.fresh_int("n"); d = symx.fresh_int("d")
        symx.CTL.assume(d != 0)
        which = symx.choose("which", 2 + len(DENS))
        if which == 0:
            b = Beat(symx.SymInt(n))
            ok = symx.zr(symx.term_of(b)) == z3.ToReal(n)
        elif which == 1:
            b = Beat(symx.SymInt(n), symx.SymInt(d))
            ok = symx.zr(symx.term_of(b)) * z3.ToReal(d) == z3.ToReal(n)
        else:
            dd = DENS[which - 2]
            b = Beat(symx.FracShim(symx.SymInt(n), dd))
            ok = symx.zr(symx.term_of(b)) * dd == z3.ToReal(n)
        return z3.And(ok, z3.BoolVal(type(b) is Beat)), ("construct_exact", which)
    return symx.explore(run, budget_s=budget_s)


def ob_construct_round(budget_s=60):
    """Beat(float|Decimal|decimal string) is the nearest multiple of 1/48: tick aligned and |b - x| <= 1/96"""
    import z3
    symx, mods = _setup()
    Beat = mods["simfile.timing"].Beat

    def run():
        which = symx.choose("which", 4)
        grid = 1 - symx.choose("gridfirst", 2)   # the replayable grid variant is explored first
        if grid:
            # x on a grid whose points are exactly representable (dyadic for float, 6 decimal places otherwise), so that a
            # counterexample can be replayed on the real types; grid == 0 is the general real x
            den = 2**20 if which == 0 else 10**6
            mx = symx.fresh_int("mx", -10**7 * den, 10**7 * den)
            x = z3.ToReal(mx) / den
        else:
            x = symx.fresh_real("x", -10**7, 10**7)
        if which == 0:
            b = Beat(symx.FloatShim(x))
        elif which == 1:
            b = Beat(symx.DecShim(x))
        elif which == 2:
            b = Beat(str(symx.DecShim(x)))  # decimal string: token rendering of an arbitrary decimal value
        else:
            b = Beat.from_str(str(symx.DecShim(x)))
        bv = symx.zr(symx.term_of(b))
        aligned, k = symx.tick_index(b)
        if not aligned:
            return False, ("construct_round", which, "not tick aligned")
        return z3.And(bv - x <= z3.RealVal("1/96"), x - bv <= z3.RealVal("1/96"), z3.BoolVal(type(b) is Beat)), ("construct_round", which)
    return symx.explore(run, budget_s=budget_s)


ROUND_DENS = [2, 4, 8, 16, 32, 64, 128, 5, 10, 40, 125]


def ob_construct_round_nd(d, budget_s=60):
    """Beat(float|Decimal|decimal string) for x = (d*q + r)/d with a concrete denominator d, every residue r by case split and q
    any integer: the reduced denominator of x is then concrete along a path, so code that inspects numerator/denominator
    of the inexact input is decidable (the general-real obligation cannot look inside x)"""
    import z3
    symx, mods = _setup()
    Beat = mods["simfile.timing"].Beat
    dyadic = d & (d - 1) == 0

    def run():
        which = symx.choose("which", 4 if dyadic else 3) + (0 if dyadic else 1)
        r = symx.choose("r", d)
        q = symx.fresh_int("q", -10**7, 10**7)
        n = d * q + r
        x = z3.ToReal(n) / d
        if which == 0:
            b = Beat(symx.FloatShim._make(x, (n, d)))
        elif which == 1:
            b = Beat(symx.DecShim._make(x, (n, d)))
        elif which == 2:
            b = Beat(str(symx.DecShim._make(x, (n, d))))
        else:
            b = Beat.from_str(str(symx.DecShim._make(x, (n, d))))
        bv = symx.zr(symx.term_of(b))
        aligned, k = symx.tick_index(b)
        if not aligned:
            return False, ("construct_round_nd", which, "not tick aligned")
        return z3.And(bv - x <= z3.RealVal("1/96"), x - bv <= z3.RealVal("1/96"), z3.BoolVal(type(b) is Beat)), ("construct_round_nd", which)
    return symx.explore(run, budget_s=budget_s)


def _operand(symx, Beat, name, kind, den, bound=None):
    import z3
    n = symx.fresh_int(name, -bound if bound else None, bound)
    if kind == "beat":
        return Beat(symx.SymInt(n), den), z3.ToReal(n) / den
    if kind == "int":
        return symx.SymInt(n), z3.ToReal(n)
    return symx.FracShim(symx.SymInt(n), den), z3.ToReal(n) / den


def ob_binop(op, lk, rk, d1, d2, budget_s=60):
    """a <op> b for a beat and a beat/int/Fraction (either side): exact rational result, type Beat"""
    import z3
    symx, mods = _setup()
    Beat = mods["simfile.timing"].Beat

    def run():
        a, ta = _operand(symx, Beat, "a", lk, d1, 10**9 if op in ("%", "divmod") else None)
        if op in ("%", "divmod"):
            # divisor concrete (a symbolic divisor makes floor-mod non-linear for the solver): chosen by case split
            nb = DIVISORS[symx.choose("bi", len(DIVISORS))]
            b = Beat(nb, d2) if rk == "beat" else (nb if rk == "int" else symx.FracShim(nb, d2))
            tb = symx.zr(Fraction(nb, 1 if rk == "int" else d2))
        else:
            b, tb = _operand(symx, Beat, "b", rk, d2)
        if op == "/":
            symx.CTL.assume(tb != 0)
        if op == "+": r = a + b; exp = ta + tb
        elif op == "-": r = a - b; exp = ta - tb
        elif op == "*": r = a * b; exp = ta * tb
        elif op == "/": r = a / b; exp = ta / tb
        elif op == "%": r = a % b; exp = None
        else:
            q, r = divmod(a, b); exp = None
        if type(r) is not Beat:
            return False, ("binop", op, lk, rk, "result type " + type(r).__name__)
        rv = symx.zr(symx.term_of(r))
        if exp is not None:
            return rv == exp, ("binop", op, lk, rk)
        # floor-mod semantics: a == q*b + r, q integer, r has the sign of b and |r| < |b|
        qv = symx.fresh_int("q!")
        conds = [z3.Or(z3.And(tb > 0, rv >= 0, rv < tb), z3.And(tb < 0, rv <= 0, rv > tb))]
        if op == "divmod":
            conds.append(symx.zr(symx.term_of(q)) * tb + rv == ta)
            conds.append(symx.bterm(symx.FracShim(q) == symx.FracShim(q).__floor__()))
        else:
            k = symx.floor_term((ta - rv) / tb)
            conds.append(z3.ToReal(k) * tb == ta - rv)
        return z3.And(*conds), ("binop", op, lk, rk)
    return symx.explore(run, budget_s=budget_s)


def ob_unary(budget_s=60):
    """-b, +b, abs(b): exact, type Beat"""
    import z3
    symx, mods = _setup()
    Beat = mods["simfile.timing"].Beat

    def run():
        den = DENS[symx.choose("den", len(DENS))]
        a, ta = _operand(symx, Beat, "a", "beat", den)
        r1, r2, r3 = -a, +a, abs(a)
        if not all(type(r) is Beat for r in (r1, r2, r3)):
            return False, ("unary type",)
        v = lambda r: symx.zr(symx.term_of(r))
        return z3.And(v(r1) == -ta, v(r2) == ta, v(r3) == z3.If(ta >= 0, ta, -ta)), ("unary",)
    return symx.explore(run, budget_s=budget_s)


def ob_text_roundtrip(budget_s=60):
    """Beat.from_str(str(Beat(k,48))) == Beat(k,48) for ALL integers k (linear integer arithmetic, no bound)"""
    import z3
    symx, mods = _setup()
    Beat = mods["simfile.timing"].Beat

    def run():
        k = symx.fresh_int("k")
        b = Beat(symx.SymInt(k), 48)
        s = str(b)
        back = Beat.from_str(s)
        # and the text denotes the 3-decimal rounding of the beat: |1000*b - m| <= 1/2 with m = 1000 * (value of the text)
        tv = symx.FracShim(s)
        close = z3.And(symx.bterm(tv * 1000 - b * 1000 <= Fraction(1, 2)), symx.bterm(b * 1000 - tv * 1000 <= Fraction(1, 2)),
                       symx.bterm((tv * 1000) == (tv * 1000).__floor__()))
        return z3.And(symx.bterm(back == b), close, z3.BoolVal(type(back) is Beat)), ("text",)
    return symx.explore(run, budget_s=budget_s)


SKELETONS = [("{}", ",\n"), ("  {}\n", " ,\r\n\t"), ("\n{}", ",")]


def _beatvalues(symx, T, n, name):
    import z3
    evs, terms = [], []
    for i in range(n):
        k = symx.fresh_int(f"{name}k{i}", -96000, 96000)   # any order, repeated beats allowed: the list is data, not a timeline
        m = symx.fresh_int(f"{name}m{i}")
        evs.append(T.BeatValue(T.Beat(symx.SymInt(k), 48), symx.DecShim._make(z3.ToReal(m) / 10**6, (m, 10**6))))
        terms.append((k, m))
    return T.BeatValues(evs), terms


def _same_events(symx, got, terms):
    import z3
    if len(got) != len(terms):
        return False
    c = []
    for ev, (k, m) in zip(got, terms):
        c.append(symx.bterm(ev.beat == symx.FracShim._make(z3.ToReal(k) / 48, (k, 48))))
        c.append(symx.bterm(ev.value == symx.DecShim._make(z3.ToReal(m) / 10**6, (m, 10**6))))
    return z3.And(*c) if c else True


def ob_beatvalues(n, skel, budget_s=60):
    """BeatValues.from_str(str(bv)) == bv for n events with symbolic ticks and 6-place decimal values; blanks and line
    breaks around rows as concrete skeleton variants"""
    import z3
    symx, mods = _setup()
    T = mods["simfile.timing"]

    def run():
        bv, terms = _beatvalues(symx, T, n, "e")
        s = str(bv)
        if skel:
            wrap, sep = SKELETONS[skel]
            s = wrap.format(sep.join(x.strip() for x in s.split(",")))
        back = T.BeatValues.from_str(s)
        ok = _same_events(symx, back, terms)
        # values stay exact decimals and the serialization is stable
        return ok, ("beatvalues", n, skel)
    return symx.explore(run, budget_s=budget_s)


def ob_timingdata(kind, budget_s=60):
    """TimingData(simfile) reads BPMS/STOPS/DELAYS/WARPS/OFFSET strings (as rendered by BeatValues/Decimal) into equal lists"""
    import z3
    symx, mods = _setup()
    T = mods["simfile.timing"]
    import importlib
    sm_mod = importlib.import_module  # noqa

    def run():
        S = T.__dict__["Simfile"].__args__  # (SSCSimfile, SMSimfile) classes of the shim-loaded package
        cls = [c for c in S if c.__name__ == ("SSCSimfile" if kind == "ssc" else "SMSimfile")][0]
        sf = cls.blank()
        lists = {}
        for key, n in (("BPMS", 2), ("STOPS", 1), ("DELAYS", 1), ("WARPS", 1)):
            bv, terms = _beatvalues(symx, T, n, key.lower())
            sf[key] = str(bv)
            lists[key] = terms
        mo = symx.fresh_int("moff")
        off_present = symx.choose("offp", 3)
        if off_present == 0:
            sf["OFFSET"] = str(symx.DecShim._make(z3.ToReal(mo) / 10**6, (mo, 10**6)))
        elif off_present == 1:
            sf["OFFSET"] = ""
        else:
            del sf["OFFSET"]
        td = T.TimingData(sf)
        c = [_same_events(symx, getattr(td, key.lower()), lists[key]) for key in lists]
        want_off = z3.ToReal(mo) / 10**6 if off_present == 0 else z3.RealVal(0)
        c.append(symx.zr(symx.term_of(td.offset)) == want_off)
        if any(x is False for x in c):
            return False, ("timingdata", kind)
        return z3.And(*[x for x in c if x is not True]), ("timingdata", kind)
    return symx.explore(run, budget_s=budget_s)


def ob_shim_differential(budget_s=120):
    from vlib import shimtest
    return shimtest.ob_shim_differential(budget_s)


def ob_corpus_differential(budget_s=300):
    from vlib import shimtest
    return shimtest.ob_corpus_differential(budget_s)


def ob_overrides_present(budget_s=10):
    """structural: every operator the property names is overridden in class Beat (regenerated from the AST)"""
    from vlib import symx
    src = open(os.path.join(symx.REPO, "simfile/timing/__init__.py")).read()
    cls = [n for n in ast.parse(src).body if isinstance(n, ast.ClassDef) and n.name == "Beat"][0]
    have = {n.name for n in cls.body if isinstance(n, ast.FunctionDef)}
    want = {"__add__", "__radd__", "__sub__", "__rsub__", "__mul__", "__rmul__", "__truediv__", "__rtruediv__", "__mod__", "__rmod__",
            "__divmod__", "__rdivmod__", "__neg__", "__pos__", "__abs__"}
    r = symx.Result()
    r.paths = 1
    r.twin_sat = True
    missing = sorted(want - have)
    # informational only: a missing override shows up as a wrong result type in ob_binop/ob_unary
    r.status = "discharged"
    r.reason = "missing overrides: %s" % missing if missing else ""
    return r


def obligations(tier):
    obs = [dict(name="shim_differential", func="ob_shim_differential", args=(), budget_s=120,
                bounds="the repository's 70 timing/notes unit tests executed inside the shim-loaded modules (validation of the stand-ins; a failure is fatal)"),
           dict(name="corpus_differential", func="ob_corpus_differential", args=(), budget_s=300,
                bounds="all 17 corpus charts: decode, re-encode, group/ungroup and note timing agree between the shim-loaded and the real modules (validation of the stand-ins; a failure is fatal)"),
           dict(name="construct_exact", func="ob_construct_exact", args=(), budget_s=120, bounds="n, d unbounded integers, d != 0; Fraction denominators " + str(DENS)),
           dict(name="construct_round", func="ob_construct_round", args=(), budget_s=120, bounds="x any real with |x| <= 1e7; float / Decimal / decimal string / from_str"),
           dict(name="unary", func="ob_unary", args=(), budget_s=120, bounds="numerator unbounded, denominators " + str(DENS)),
           dict(name="text_roundtrip", func="ob_text_roundtrip", args=(), budget_s=120, bounds="all integers k (tick index), unbounded"),
           dict(name="overrides_present", func="ob_overrides_present", args=(), budget_s=10, bounds="AST of class Beat")]
    for d in ROUND_DENS:
        obs.append(dict(name=f"construct_round x=n/{d}", func="ob_construct_round_nd", args=(d,), budget_s=120,
                        bounds=f"x = n/{d}: every residue of n modulo {d} by case split, quotient any integer with |q| <= 1e7; float (dyadic d) / Decimal / decimal string / from_str"))
    pairs = [(1, 1), (48, 48), (48, 7), (3, 1000)] if tier == "quick" else [(a, b) for a in DENS for b in DENS]
    for op in BINOPS:
        for lk, rk in (("beat", "beat"), ("beat", "int"), ("int", "beat"), ("beat", "fraction"), ("fraction", "beat")):
            for d1, d2 in pairs:
                if (lk == "int" and d1 != pairs[0][0]) or (rk == "int" and d2 != pairs[0][1]):
                    continue
                obs.append(dict(name=f"binop {lk}{op}{rk} /{d1},{d2}", func="ob_binop", args=(op, lk, rk, d1, d2), budget_s=120,
                                bounds=f"numerators unbounded integers, denominators {d1} and {d2}"))
    for n in (1, 2, 3):
        for sk in range(len(SKELETONS)):
            if tier == "quick" and n == 3 and sk:
                continue
            obs.append(dict(name=f"beatvalues n={n} skeleton={sk}", func="ob_beatvalues", args=(n, sk), budget_s=120,
                            bounds=f"{n} events, ticks in +-96000 in any order (repeats allowed), values m/10^6 with m unbounded"))
    for kind in ("sm", "ssc"):
        obs.append(dict(name=f"timingdata {kind}", func="ob_timingdata", args=(kind,), budget_s=120, bounds="2 BPMs, 1 stop, 1 delay, 1 warp; OFFSET present/empty/absent"))
    return obs


def signature(ob, res):
    return ob["name"].split(" /")[0]


def replay(data):
    import simfile
    from simfile.timing import Beat, BeatValue, BeatValues, TimingData
    from decimal import Decimal
    m = data["model"] or {}; func = data["func"]; args = data["args"]
    g = lambda n, d="0": Fraction(m.get(n, d))
    if func == "ob_construct_exact":
        w = int(g("which")); n, d = int(g("n")), int(g("d", "1"))
        if w == 0: b, exp = Beat(n), Fraction(n)
        elif w == 1: b, exp = Beat(n, d), Fraction(n, d)
        else: b, exp = Beat(Fraction(n, DENS[w - 2])), Fraction(n, DENS[w - 2])
        return (Fraction(b) != exp or type(b) is not Beat), f"constructor variant {w} with n={n}, d={d}: {b!r} (type {type(b).__name__}), expected {exp}"
    if func == "ob_construct_round":
        w = int(g("which"))
        x = g("mx") / (2**20 if w == 0 else 10**6) if not int(g("gridfirst")) else g("x")
        dx = Decimal(x.numerator) / Decimal(x.denominator)
        if Fraction(dx) != x:
            return False, "model value is not a finite decimal"
        b = [lambda: Beat(float(dx)), lambda: Beat(dx), lambda: Beat(str(dx)), lambda: Beat.from_str(str(dx))][w]()
        bad = (Fraction(b) * 48).denominator != 1 or abs(Fraction(b) - (Fraction(float(dx)) if w == 0 else x)) > Fraction(1, 96) or type(b) is not Beat
        return bad, f"variant {w}, x={dx}: {Fraction(b)}"
    if func == "ob_construct_round_nd":
        d = args[0]
        w = int(g("which")) + (0 if d & (d - 1) == 0 else 1)
        x = Fraction(d * int(g("q")) + int(g("r")), d)
        dx = Decimal(x.numerator) / Decimal(x.denominator)
        if Fraction(dx) != x:
            return False, "model value is not a finite decimal"
        b = [lambda: Beat(float(dx)), lambda: Beat(dx), lambda: Beat(str(dx)), lambda: Beat.from_str(str(dx))][w]()
        bad = (Fraction(b) * 48).denominator != 1 or abs(Fraction(b) - (Fraction(float(dx)) if w == 0 else x)) > Fraction(1, 96) or type(b) is not Beat
        return bad, f"variant {w}, x={dx}: {Fraction(b)}"
    if func == "ob_binop":
        op, lk, rk, d1, d2 = args
        mk = lambda k, n, d: Beat(n, d) if k == "beat" else (n if k == "int" else Fraction(n, d))
        a, b = mk(lk, int(g("a")), d1), mk(rk, DIVISORS[int(g("bi"))] if op in ("%", "divmod") else int(g("b")), d2)
        fa, fb = Fraction(a), Fraction(b)
        import operator
        f = {"+": operator.add, "-": operator.sub, "*": operator.mul, "/": operator.truediv, "%": operator.mod, "divmod": divmod}[op]
        r, e = f(a, b), f(fa, fb)
        rr = r[1] if op == "divmod" else r
        bad = type(rr) is not Beat or (tuple(map(Fraction, r)) != tuple(e) if op == "divmod" else Fraction(r) != e)
        return bad, f"{a!r} {op} {b!r} = {r!r} (type {type(rr).__name__}), exact {e}"
    if func == "ob_unary":
        a = Beat(int(g("a")), DENS[int(g("den"))])
        rs = (-a, +a, abs(a)); es = (-Fraction(a), Fraction(a), abs(Fraction(a)))
        return any(type(r) is not Beat or Fraction(r) != e for r, e in zip(rs, es)), f"unary on {a!r}: {rs}"
    if func == "ob_text_roundtrip":
        k = int(g("k")); b = Beat(k, 48)
        if abs(k) > 48 * 10**7:
            return False, "outside the magnitude bound"
        return Beat.from_str(str(b)) != b, f"Beat({k},48) -> {str(b)!r} -> {Beat.from_str(str(b))!r}"
    if func == "ob_beatvalues":
        n, sk = args
        bv = BeatValues([BeatValue(Beat(int(g(f"ek{i}")), 48), Decimal(int(g(f"em{i}"))) / Decimal(10**6)) for i in range(n)])
        s = str(bv)
        if sk:
            wrap, sep = SKELETONS[sk]
            s = wrap.format(sep.join(x.strip() for x in s.split(",")))
        back = BeatValues.from_str(s)
        return list(back) != list(bv), f"{bv!r} -> {s!r} -> {back!r}"
    if func == "ob_timingdata":
        from simfile.sm import SMSimfile
        from simfile.ssc import SSCSimfile
        sf = (SSCSimfile if args[0] == "ssc" else SMSimfile).blank()
        want = {}
        for key, n in (("BPMS", 2), ("STOPS", 1), ("DELAYS", 1), ("WARPS", 1)):
            bv = BeatValues([BeatValue(Beat(int(g(f"{key.lower()}k{i}")), 48), Decimal(int(g(f"{key.lower()}m{i}"))) / Decimal(10**6)) for i in range(n)])
            sf[key] = str(bv); want[key] = list(bv)
        op = int(g("offp")); off = Decimal(int(g("moff"))) / Decimal(10**6)
        if op == 0: sf["OFFSET"] = str(off)
        elif op == 1: sf["OFFSET"] = ""
        else: del sf["OFFSET"]
        td = TimingData(sf)
        bad = any(list(getattr(td, k.lower())) != want[k] for k in want) or td.offset != (off if op == 0 else 0)
        return bad, f"TimingData: {td.bpms} {td.stops} {td.delays} {td.warps} {td.offset} from {dict(sf)}"
    return False, "unknown"


def main(tier):
    from vlib import core
    chk = core.Check(PROP, tier, "harness." + PROP, FUNCTIONS,
                     bounds="numerators/ticks unbounded integers; denominators from %s (%s pairs); event lists of 1..3 events; 3 whitespace skeletons" % (DENS, "4" if tier == "quick" else "all 36"),
                     assumptions=ASSUMPTIONS, outside=OUTSIDE)
    chk.add_results(core.run_obligations("harness." + PROP, obligations(tier)))
    return chk.finish(signature)
