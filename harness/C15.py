"""C15 — split timing rule (engine xh over the enumerated configuration space)."""
from vlib import xhprop

PROP = "C15"
FILE = "xh_C15.py"
FUNCTIONS = ["simfile.timing._private.timingsource.timing_source", "TimingData.__init__", "simfile.timing.displaybpm.displaybpm", "BeatValues.from_str (concrete strings)"]
ASSUMPTIONS = ["values are concrete and distinct per source so that mixing is observable; numeric parsing (float(), Decimal()) runs on concrete representatives",
               "configuration variables (kinds, version index, the eleven property states, OFFSET/DISPLAYBPM states, ignore_specified) are symbolic integers/booleans"]
OUTSIDE = ["arbitrary numeric spellings of versions and BPM values (representatives only)", "displayed BPM when the chosen source has no BPMS (excluded by the property)"]


def obligations(tier):
    T = 120 if tier == "quick" else 900
    obs = []
    for ssc in (False, True):
        for ck in range(3):
            if ssc and ck == 2:
                for vi in range(7):
                    obs.append(dict(name=f"timing[ssc,chart=ssc,version{vi}]", func="timing", pre=f"ssc and ck == 2 and vi == {vi}", timeout=T,
                                    bounds="3^11 chart timing property states x OFFSET states x simfile BPMS state"))
            else:
                obs.append(dict(name=f"timing[ssc={ssc},chart={ck}]", func="timing", pre=f"ssc == {ssc} and ck == {ck}" + (" and s0 == s1 == s2 == s3 == s4 == s5 == s6 == s7 == s8 == s9 == s10 == 0" if ck != 2 else ""), timeout=T,
                                bounds="version index symbolic; chart property states irrelevant unless the chart is an SSC chart"))
    for ssc in (False, True):
        for ck in range(3):
            obs.append(dict(name=f"display[ssc={ssc},chart={ck}]", func="display", pre=f"ssc == {ssc} and ck == {ck}", timeout=T,
                            bounds="version index, one chart timing property in 3 states, 8 DISPLAYBPM classes on either side, ignore_specified"))
    return obs


def signature(ob, res):
    return ob["func"]


def replay(data):
    from vlib import xh
    return xh.replay("xh_C15", data)


def main(tier):
    return xhprop.main(PROP, tier, FILE, obligations(tier), FUNCTIONS, ASSUMPTIONS, OUTSIDE, signature,
                       bounds="{SM,SSC} x 7 versions x {none, SM chart, SSC chart} x 3^11 timing property states x OFFSET/DISPLAYBPM states x ignore_specified")
