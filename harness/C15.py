"""C15 — split timing: chart timing is used all-or-nothing under one rule (engine symx).

The emptiness of each of the eleven chart timing properties is a solver variable: the chart holds, for every property
that is present, a string object whose truth value is decided by z3 (TStr), so the rule's any() over the properties is
explored symbolically (all 2^11 empty/non-empty vectors in a dozen paths); which properties are absent altogether,
the simfile/chart kinds, the version and the OFFSET/DISPLAYBPM classes are solver-guided case splits.
(A first CrossHair version of this harness did not finish: every path re-parses the timing strings under tracing.)"""
from fractions import Fraction

PROP = "C15"
MODS = ("simfile.timing", "simfile.timing.displaybpm", "simfile.timing._private.timingsource", "simfile.sm", "simfile.ssc")
FUNCTIONS = ["simfile.timing._private.timingsource.timing_source", "TimingData.__init__", "simfile.timing.displaybpm.displaybpm", "BeatValues.from_str",
             "item_property getters of SSCChart (CHART_TIMING_PROPERTIES)"]
ASSUMPTIONS = [
    "truth value (empty / non-empty) of every present chart timing property is a z3 Bool; absence is a structural case split (none absent, all absent, exactly one present, one absent)",
    "values are concrete and distinct per source so that mixing is observable; versions from {absent, '', 0.69, 0.7, 0.70, 0.83, 1.0}; 8 DISPLAYBPM classes",
    "Decimal/Fraction/float are the symx stand-ins (concrete values here)",
]
OUTSIDE = ["arbitrary numeric spellings of versions and BPM values (representatives only)", "displayed BPM when the chosen source has no BPMS (excluded by the property)",
           "absence patterns other than none / all / exactly-one-present / exactly-one-absent (thorough: also every pair present)"]

VERSIONS = [None, "", "0.69", "0.7", "0.70", "0.83", "1.0"]
SPLIT_OK = [False, False, False, True, True, True, True]
TIMING_KEYS = ["BPMS", "STOPS", "DELAYS", "TIMESIGNATURES", "TICKCOUNTS", "COMBOS", "WARPS", "SPEEDS", "SCROLLS", "FAKES", "LABELS"]
SF_VALS = {"BPMS": "0.000=100.000,\n4.000=150.000", "STOPS": "1.000=0.100", "DELAYS": "2.000=0.200", "WARPS": "3.000=1.000", "OFFSET": "0.100"}
CH_VALS = {"BPMS": "0.000=200.000", "STOPS": "5.000=0.500", "DELAYS": "6.000=0.600", "WARPS": "7.000=2.000", "OFFSET": "-0.700",
           "TIMESIGNATURES": "0.000=3=4", "TICKCOUNTS": "0.000=2", "COMBOS": "0.000=2", "SPEEDS": "0.000=2.000=0.000=0", "SCROLLS": "0.000=2.000",
           "FAKES": "1.000=1.000", "LABELS": "0.000=x"}
DBPM = [None, "", "120", "100:200", "*", "abc", "1:x", " 90 "]
ABSENCE = ["none-absent", "all-absent", "one-present", "one-absent", "two-present"]


def _setup():
    from vlib import symx
    return symx, symx.load_shimmed(MODS)


def _tstr(symx, text, cond):
    """a str whose truth value is the z3 Bool `cond` (content is only read by the code when it is truthy)"""
    class TStr(str):
        def __bool__(self):
            return symx.CTL.branch(cond)

        def strip(self, *a):
            return self  # keeps the symbolic truth value through `string and string.strip()`
    return TStr(text)


def _build(symx, mods, absence, j):
    import z3
    SM, SSC = mods["simfile.sm"], mods["simfile.ssc"]
    ssc = symx.choose("ssc", 2) == 1
    vi = symx.choose("vi", len(VERSIONS))      # an SM simfile may carry a VERSION key too (e.g. converted from SSC)
    ck = symx.choose("ck", 3)
    sf = SSC.SSCSimfile(string="") if ssc else SM.SMSimfile(string="")
    if VERSIONS[vi] is not None:
        sf["VERSION"] = VERSIONS[vi]
    for k in ("BPMS", "STOPS", "DELAYS", "WARPS"):
        sf[k] = SF_VALS[k]
    so = symx.choose("so", 3)
    if so:
        sf["OFFSET"] = "" if so == 1 else SF_VALS["OFFSET"]
    chart, ne, co = None, {}, 0
    if ck == 1:
        chart = SM.SMChart.blank()
    elif ck == 2:
        chart = SSC.SSCChart()
        chart["STEPSTYPE"] = "dance-single"
        for i, key in enumerate(TIMING_KEYS):
            present = {"none-absent": True, "all-absent": False, "one-present": i == j, "one-absent": i != j,
                       "two-present": i in (j % 11, j // 11)}[absence]
            if present:
                ne[key] = z3.Bool("ne_" + key)
                chart[key] = _tstr(symx, CH_VALS[key], ne[key])
        co = symx.choose("co", 3)
        if co:
            chart["OFFSET"] = "" if co == 1 else CH_VALS["OFFSET"]
        chart["NOTES"] = "0000"
    return ssc, vi, ck, sf, chart, ne, so, co


def _oracle_use(ssc, vi, ck, ne):
    import z3
    if not (ssc and ck == 2 and SPLIT_OK[vi]):
        return z3.BoolVal(False)
    return z3.Or(*ne.values()) if ne else z3.BoolVal(False)


def ob_source(absence, j, budget_s=120):
    """timing_source returns the chart exactly under the documented rule, and TimingData reads every field and the
    offset from that one source"""
    import z3
    symx, mods = _setup()
    T = mods["simfile.timing"]; TS = mods["simfile.timing._private.timingsource"]

    def run():
        ssc, vi, ck, sf, chart, ne, so, co = _build(symx, mods, absence, j)
        src = TS.timing_source(sf, chart)
        if src is not sf and src is not chart:
            return False, ("source is neither object",)
        use = _oracle_use(ssc, vi, ck, ne)
        if src is chart and chart is not None:
            if not symx.CTL.branch(use):
                return False, ("chart used against the rule", ssc, VERSIONS[vi], ck)
        else:
            if symx.CTL.branch(use):
                return False, ("chart not used although the rule says so", ssc, VERSIONS[vi], ck)
        td = T.TimingData(sf, chart)
        vals = CH_VALS if src is chart else SF_VALS
        for key in ("BPMS", "STOPS", "DELAYS", "WARPS"):
            got = list(getattr(td, key.lower()))
            if key in src and bool(src[key]):
                want = list(T.BeatValues.from_str(vals[key]))
            else:
                want = []
            if got != want:
                return False, ("field", key, str(got), str(want), "source is chart" if src is chart else "source is simfile")
        st = co if src is chart else so
        want_off = symx.DecShim(vals["OFFSET"]) if st == 2 else symx.DecShim(0)
        if not (td.offset == want_off):
            return False, ("offset", str(td.offset), str(want_off))
        return True, ("source", absence, j)
    return symx.explore(run, budget_s=budget_s)


def _expected_display(symx, T, D, get, bpms_text, ignore):
    v = get("DISPLAYBPM")
    if v is not None and not ignore:
        if v == "*":
            return D.RandomDisplayBPM()
        try:
            if ":" in v:
                a, _, b = v.partition(":")
                return D.RangeDisplayBPM(min=symx.DecShim(a), max=symx.DecShim(b))
            return D.StaticDisplayBPM(value=symx.DecShim(v))
        except Exception:
            pass
    bpms = [e.value for e in T.BeatValues.from_str(bpms_text)]
    if len(bpms) == 1:
        return D.StaticDisplayBPM(bpms[0])
    return D.RangeDisplayBPM(min=min(bpms), max=max(bpms))


def ob_display(absence, j, budget_s=120):
    """displaybpm comes from the same source: its DISPLAYBPM when present, well-formed and not ignored, else min/max of its BPMS"""
    import z3
    symx, mods = _setup()
    T = mods["simfile.timing"]; D = mods["simfile.timing.displaybpm"]; SSC = mods["simfile.ssc"]

    def run():
        ssc, vi, ck, sf, chart, ne, so, co = _build(symx, mods, absence, j)
        sd = symx.choose("sd", len(DBPM)); cd = symx.choose("cd", len(DBPM)) if ck == 2 else 0
        ignore = symx.choose("ignore", 2) == 1
        if DBPM[sd] is not None:
            sf["DISPLAYBPM"] = DBPM[sd]
        if ck == 2 and DBPM[cd] is not None:
            chart["DISPLAYBPM"] = DBPM[cd]
        use = symx.CTL.branch(_oracle_use(ssc, vi, ck, ne))
        if use:
            # domain of the displayed-BPM clause: the chosen source has a non-empty BPMS
            if "BPMS" not in ne:
                raise symx.Prune()
            symx.CTL.assume(ne["BPMS"])
            symx.require_feasible()
        if ck == 0:
            got = D.displaybpm(sf, ignore_specified=ignore) if symx.choose("noarg", 2) else D.displaybpm(sf, SSC.SSCChart(), ignore_specified=ignore)
        else:
            got = D.displaybpm(sf, chart, ignore_specified=ignore)
        src = chart if use else sf
        exp = _expected_display(symx, T, D, src.get, (CH_VALS if use else SF_VALS)["BPMS"], ignore)
        if type(got) is not type(exp) or not (got == exp):
            return False, ("displaybpm", str(got), str(exp), "chart" if use else "simfile", DBPM[sd], DBPM[cd], ignore)
        return True, ("display", absence, j)
    return symx.explore(run, budget_s=budget_s)


def obligations(tier):
    obs = []
    b = 300 if tier == "quick" else 3000
    for f in ("ob_source", "ob_display"):
        for ab in ("none-absent", "all-absent"):
            obs.append(dict(name=f"{f[3:]}[{ab}]", func=f, args=(ab, 0), budget_s=b,
                            bounds="kinds x 7 versions x chart kinds x OFFSET states" + (" x 8x8 DISPLAYBPM classes x ignore_specified" if f == "ob_display" else "") + "; emptiness of the present chart timing properties symbolic (2^11)"))
        for ab in ("one-present", "one-absent"):
            for j in (range(11) if (tier != "quick" or f == "ob_source") else (0, 1, 6, 10)):
                obs.append(dict(name=f"{f[3:]}[{ab} {TIMING_KEYS[j]}]", func=f, args=(ab, j), budget_s=b, bounds="as above with exactly one property present / absent"))
        if tier != "quick" and f == "ob_source":
            for a in range(11):
                for c in range(a + 1, 11):
                    obs.append(dict(name=f"source[two-present {TIMING_KEYS[a]}+{TIMING_KEYS[c]}]", func=f, args=("two-present", a + 11 * c), budget_s=b, bounds="exactly two chart timing properties present, emptiness symbolic"))
    return obs


def signature(ob, res):
    return ob["func"] + ":" + str(res.get("info"))[:50]


def replay(data):
    """concrete re-run on the real classes: the model fixes the case splits and the ne_* truth values"""
    import simfile
    from decimal import Decimal
    from simfile.sm import SMSimfile, SMChart
    from simfile.ssc import SSCSimfile, SSCChart
    from simfile.timing import TimingData, BeatValues
    from simfile.timing.displaybpm import displaybpm, StaticDisplayBPM, RangeDisplayBPM, RandomDisplayBPM
    from simfile.timing._private.timingsource import timing_source
    m = data["model"] or {}
    absence, j = data["args"]
    gi = lambda k, d=0: int(Fraction(m.get(k, str(d))))
    gb = lambda k: str(m.get(k, "False")) in ("True", "1")
    ssc = gi("ssc") == 1; vi = gi("vi"); ck = gi("ck")
    sf = SSCSimfile(string="") if ssc else SMSimfile(string="")
    if VERSIONS[vi] is not None:
        sf["VERSION"] = VERSIONS[vi]
    for k in ("BPMS", "STOPS", "DELAYS", "WARPS"):
        sf[k] = SF_VALS[k]
    so = gi("so")
    if so:
        sf["OFFSET"] = "" if so == 1 else SF_VALS["OFFSET"]
    chart, nonempty = None, []
    if ck == 1:
        chart = SMChart.blank()
    elif ck == 2:
        chart = SSCChart(); chart["STEPSTYPE"] = "dance-single"
        for i, key in enumerate(TIMING_KEYS):
            present = {"none-absent": True, "all-absent": False, "one-present": i == j, "one-absent": i != j,
                       "two-present": i in (j % 11, j // 11)}[absence]
            if present:
                chart[key] = CH_VALS[key] if gb("ne_" + key) else ""
                if gb("ne_" + key):
                    nonempty.append(key)
        co = gi("co")
        if co:
            chart["OFFSET"] = "" if co == 1 else CH_VALS["OFFSET"]
        chart["NOTES"] = "0000"
    use = ssc and ck == 2 and SPLIT_OK[vi] and bool(nonempty)
    src = chart if use else sf
    if data["func"] == "ob_source":
        got_src = timing_source(sf, chart)
        td = TimingData(sf, chart)
        bad = got_src is not src
        for key in ("BPMS", "STOPS", "DELAYS", "WARPS"):
            if list(getattr(td, key.lower())) != list(BeatValues.from_str(src.get(key))):
                bad = True
        if td.offset != Decimal(src.get("OFFSET") or 0):
            bad = True
        return bad, f"simfile={type(sf).__name__} {dict(sf)} chart={None if chart is None else dict(chart)}: source is {'chart' if got_src is chart else 'simfile'}, rule says {'chart' if use else 'simfile'}; TimingData bpms={td.bpms} stops={td.stops} offset={td.offset}"
    sd, cd, ignore = gi("sd"), gi("cd"), gi("ignore") == 1
    if DBPM[sd] is not None:
        sf["DISPLAYBPM"] = DBPM[sd]
    if ck == 2 and DBPM[cd] is not None:
        chart["DISPLAYBPM"] = DBPM[cd]
    if ck == 0:
        got = displaybpm(sf, ignore_specified=ignore) if gi("noarg") else displaybpm(sf, SSCChart(), ignore_specified=ignore)
    else:
        got = displaybpm(sf, chart, ignore_specified=ignore)
    v = src.get("DISPLAYBPM"); exp = None
    if v is not None and not ignore:
        if v == "*":
            exp = RandomDisplayBPM()
        else:
            try:
                if ":" in v:
                    a, _, b = v.partition(":"); exp = RangeDisplayBPM(min=Decimal(a), max=Decimal(b))
                else:
                    exp = StaticDisplayBPM(value=Decimal(v))
            except Exception:
                exp = None
    if exp is None:
        bp = [e.value for e in BeatValues.from_str(src["BPMS"])]
        exp = StaticDisplayBPM(bp[0]) if len(bp) == 1 else RangeDisplayBPM(min=min(bp), max=max(bp))
    return (type(got) is not type(exp) or got != exp), f"displaybpm = {got!r}, documented {exp!r}; simfile={dict(sf)} chart={None if chart is None else dict(chart)} ignore={ignore}"


def main(tier):
    from vlib import core
    chk = core.Check(PROP, tier, "harness." + PROP, FUNCTIONS,
                     bounds="{SM,SSC} x 7 versions x {no chart, SM chart, SSC chart} x emptiness of all present chart timing properties (symbolic) x 4 absence patterns x OFFSET states x 8x8 DISPLAYBPM classes x ignore_specified",
                     assumptions=ASSUMPTIONS, outside=OUTSIDE)
    chk.add_results(core.run_obligations("harness." + PROP, obligations(tier)))
    return chk.finish(signature)
