"""C07 — note data text decodes to exactly one correctly placed note per non-zero cell (engine symx; partial)."""
import operator
from fractions import Fraction

PROP = "C07"
MODS = ("simfile.timing", "simfile.notes")
FUNCTIONS = ["Note._comparable / __lt__ / (functools.total_ordering) ordering operators", "NoteData._iter_measure", "NoteData._extract_keysound_indices",
             "NoteData._get_columns", "NoteData.__iter__", "NoteData.__str__"]
ASSUMPTIONS = [
    "ordering clause: fully symbolic player/beat/column/keysound (unbounded), note types by case split",
    "beat-placement clause: measure skeletons (rows, columns, non-zero cell positions, white space, CRLF, '&' sections) are enumerated "
    "by the driver; player index, measure index and keysound digits are symbolic. Scanning symbolic text is out of reach (DESIGN C07)",
    "== / != are compared with the position order only for notes that differ in position or agree in every field (one note per cell)",
]
OUTSIDE = ["string scanning (split/strip/splitlines) over symbolic text", "unknown note characters, blank lines inside a measure (excluded by the property)"]

TYPES = ["TAP", "MINE", "HOLD_HEAD"]
OPS = {"<": operator.lt, "<=": operator.le, ">": operator.gt, ">=": operator.ge, "==": operator.eq, "!=": operator.ne}
ROWS = [1, 2, 3, 4, 5, 7, 8, 9, 12, 16, 24, 48, 192]


def _setup():
    from vlib import symx
    return symx, symx.load_shimmed(MODS)


def ob_order(opname, budget_s=60):
    """a <op> b agrees with the order of (player, beat, column) for any two notes"""
    import z3
    symx, mods = _setup()
    T = mods["simfile.timing"]; N = mods["simfile.notes"]
    op = OPS[opname]

    def run():
        p1, p2, c1, c2 = z3.Ints("p1 p2 c1 c2"); b1, b2 = z3.Reals("b1 b2")
        symx.CTL.assume(p1 >= 0, p2 >= 0, c1 >= 0, c2 >= 0, b1 >= 0, b2 >= 0)
        t1 = TYPES[symx.choose("t1", len(TYPES))]; t2 = TYPES[symx.choose("t2", len(TYPES))]
        k1 = symx.SymInt(z3.Int("k1")) if symx.choose("hk1", 2) else None
        k2 = symx.SymInt(z3.Int("k2")) if symx.choose("hk2", 2) else None
        lt = z3.Or(p1 < p2, z3.And(p1 == p2, z3.Or(b1 < b2, z3.And(b1 == b2, c1 < c2))))
        eq = z3.And(p1 == p2, b1 == b2, c1 == c2)
        if opname in ("==", "!="):
            # domain: one note per cell -> same position implies the same note
            same_rest = z3.BoolVal(t1 == t2 and (k1 is None) == (k2 is None))
            if k1 is not None and k2 is not None:
                same_rest = z3.And(same_rest, k1.t == k2.t)
            symx.CTL.assume(z3.Implies(eq, same_rest))
            symx.require_feasible()
        n1 = N.Note(beat=T.Beat(symx.FracShim(b1)), column=symx.SymInt(c1), note_type=N.NoteType[t1], player=symx.SymInt(p1), keysound_index=k1)
        n2 = N.Note(beat=T.Beat(symx.FracShim(b2)), column=symx.SymInt(c2), note_type=N.NoteType[t2], player=symx.SymInt(p2), keysound_index=k2)
        try:
            got = op(n1, n2)
        except TypeError as e:
            return False, ("TypeError", opname, t1, t2)
        exp = {"<": lt, "<=": z3.Or(lt, eq), ">": z3.Not(z3.Or(lt, eq)), ">=": z3.Not(lt), "==": eq, "!=": z3.Not(eq)}[opname]
        if isinstance(got, symx.SymBool):
            got = bool(got)
        if got is NotImplemented or not isinstance(got, bool):
            return False, ("non-bool result", opname)
        return (exp if got else z3.Not(exp)), ("order", opname, t1, t2)
    return symx.explore(run, budget_s=budget_s)


def ob_sorted(budget_s=120):
    """sorted / min / max of three notes follow the position order"""
    import z3
    symx, mods = _setup()
    T = mods["simfile.timing"]; N = mods["simfile.notes"]

    def run():
        ps = [z3.Int(f"p{i}") for i in range(3)]; cs = [z3.Int(f"c{i}") for i in range(3)]; bs = [z3.Real(f"b{i}") for i in range(3)]
        for v in ps + cs:
            symx.CTL.assume(v >= 0)
        for v in bs:
            symx.CTL.assume(v >= 0)
        # distinct positions
        for i in range(3):
            for j in range(i):
                symx.CTL.assume(z3.Not(z3.And(ps[i] == ps[j], cs[i] == cs[j], bs[i] == bs[j])))
        ts = [TYPES[i % len(TYPES)] for i in range(3)]
        notes = [N.Note(beat=T.Beat(symx.FracShim(bs[i])), column=symx.SymInt(cs[i]), note_type=N.NoteType[ts[i]], player=symx.SymInt(ps[i]),
                        keysound_index=symx.SymInt(z3.Int(f"k{i}")) if i == 1 else None) for i in range(3)]
        try:
            srt = sorted(notes); lo = min(notes); hi = max(notes)
        except TypeError:
            return False, ("TypeError in sorted/min/max",)
        idx = [next(i for i, n in enumerate(notes) if n is x) for x in srt]
        def lt(i, j):
            return z3.Or(ps[i] < ps[j], z3.And(ps[i] == ps[j], z3.Or(bs[i] < bs[j], z3.And(bs[i] == bs[j], cs[i] < cs[j]))))
        conds = [lt(idx[0], idx[1]), lt(idx[1], idx[2]), z3.BoolVal(lo is srt[0]), z3.BoolVal(hi is srt[2])]
        return z3.And(*conds), ("sorted", idx)
    return symx.explore(run, budget_s=budget_s)


def _skeleton(rows, cols, cells):
    """text of a measure with `rows` rows and `cols` columns; cells: {(row, col): char-or-(char, keysound?)}"""
    out = []
    for r in range(rows):
        out.append("".join(cells.get((r, c), "0") for c in range(cols)))
    return out


def ob_measure(rows, cols, variant, budget_s=60):
    """_iter_measure(p, m, text): one note per non-zero cell, beat == 4m + 4*row/rows, column, player, type, keysound"""
    import z3
    symx, mods = _setup()
    T = mods["simfile.timing"]; N = mods["simfile.notes"]

    def run():
        p = z3.Int("p"); m = z3.Int("m")
        symx.CTL.assume(p >= 0, m >= 0)
        chars = ["1", "2", "3", "4", "M", "L", "F", "K", "A"]
        # non-zero cells on a deterministic pattern that depends on the variant; one keysounded cell with symbolic digits
        cells = {}
        for r in range(rows):
            for c in range(cols):
                if (r * 7 + c * 3 + variant) % 5 == 0 or (r == rows - 1 and c == cols - 1):
                    cells[(r, c)] = chars[(r + c + variant) % len(chars)]
        ksr, ksc = sorted(cells)[variant % len(cells)]
        ks = z3.Int("ks"); symx.CTL.assume(ks >= 0)
        lines = []
        for r in range(rows):
            line = ""
            for c in range(cols):
                ch = cells.get((r, c), "0")
                line += ch
                if (r, c) == (ksr, ksc):
                    line += "[" + str(symx.SymInt(ks)) + "]"
            pad = ["", "  ", "\t"][(r + variant) % 3]
            lines.append(pad + line + pad)
        text = ("\r\n" if variant % 2 else "\n").join(lines)
        nd = N.NoteData.__new__(N.NoteData)
        nd._notedata = text
        nd._columns = cols
        out = list(nd._iter_measure(symx.SymInt(p), symx.SymInt(m), text))
        exp = sorted(cells)
        if len(out) != len(exp):
            return False, ("count", len(out), len(exp))
        conds = []
        for note, (r, c) in zip(out, exp):
            if note.column != c or note.note_type is not N.NoteType(cells[(r, c)]):
                return False, ("cell", r, c)
            if ((r, c) == (ksr, ksc)) != (note.keysound_index is not None):
                return False, ("keysound presence", r, c)
            conds.append(symx.zr(symx.term_of(note.beat)) == 4 * z3.ToReal(m) + z3.RealVal(4 * r) / rows)
            conds.append(symx.term_of(note.player) == p)
            if note.keysound_index is not None:
                conds.append(symx.term_of(note.keysound_index) == ks)
        return z3.And(*conds), ("measure", rows, cols, variant)
    return symx.explore(run, budget_s=budget_s)


LAYOUTS = [
    # (name, players, measures per player as rows lists, eol, decorations)
    ("single", [[4, 8]], "\n", 0),
    ("crlf-blank", [[4, 3, 12]], "\r\n", 1),
    ("routine2", [[4], [2, 4]], "\n", 2),
    ("routine3", [[1], [4], [8]], "\r\n", 1),
    ("dense192", [[192]], "\n", 0),
]


def ob_text(layout, cols, budget_s=60):
    """whole-text decoding on a concrete layout with symbolic keysound digits: count, strictly increasing positions,
    beats/columns/players per cell, .columns == row width, str() unchanged"""
    import z3
    symx, mods = _setup()
    T = mods["simfile.timing"]; N = mods["simfile.notes"]
    name, players, eol, deco = LAYOUTS[layout]

    def run():
        exp = []
        ksv = z3.Int("ks"); symx.CTL.assume(ksv >= 0)
        chars = ["1", "2", "3", "4", "M", "L", "F"]
        sections = []
        first = True
        for p, measures in enumerate(players):
            ms = []
            for m, rows in enumerate(measures):
                lines = []
                for r in range(rows):
                    line = ""
                    for c in range(cols):
                        nz = (r * 5 + c * 3 + m + p) % 7 == 0
                        ch = chars[(r + c + m) % len(chars)] if nz else "0"
                        line += ch
                        if nz:
                            k = None
                            if first:
                                line += "[" + str(symx.SymInt(ksv)) + "]"
                                k = ksv
                                first = False
                            exp.append((p, Fraction(4 * m) + Fraction(4 * r, rows), c, ch, k))
                    lines.append(("  " if deco == 1 and r % 2 else "") + line + (" " if deco == 2 else ""))
                ms.append(eol.join(lines))
            sep = eol + "," + (eol if deco != 1 else eol + eol)
            sections.append(("" if deco == 0 else eol) + sep.join(ms) + eol)
        text = ("&" + eol).join(sections)
        nd = N.NoteData(text)
        peek = next(iter(nd), None)     # an iteration abandoned after the first note must not affect later ones
        out = list(nd)
        again = list(nd)
        if len(again) != len(out) or any(a.column != b.column or a.player != b.player or a.note_type is not b.note_type for a, b in zip(again, out)):
            return False, ("second iteration differs", len(again), len(out))
        if nd.columns != cols:
            return False, ("columns", nd.columns, cols)
        if str(nd) != text:
            return False, ("str changed",)
        if len(out) != len(exp):
            return False, ("count", len(out), len(exp))
        conds = []
        for note, (p, beat, c, ch, k) in zip(out, exp):
            if note.player != p or note.column != c or note.note_type is not N.NoteType(ch) or (note.keysound_index is None) != (k is None):
                return False, ("cell", p, str(beat), c)
            conds.append(symx.bterm(note.beat == symx.FracShim(beat)))
            if k is not None:
                conds.append(symx.term_of(note.keysound_index) == k)
        for a, b in zip(out, out[1:]):
            r = a < b
            conds.append(symx.bterm(r))
        return z3.And(*conds) if conds else True, ("text", name, cols)
    return symx.explore(run, budget_s=budget_s)


# ---------------------------------------------------------------- layout family: white space by solver-guided case split
LAY_PREFIX = ["", "{e}", "  {e}{e}"]                 # before the first row of every player section
LAY_ROWPRE = ["", "  "]                              # before every second row
LAY_ROWSUF = ["", " "]                               # after every row
LAY_MSEP = ["{e},{e}", "{e}{e},{e}{e}", "{e}  ,  {e}", "{e},{e}{e}"]  # between measures: the comma on its own line, blanks and blank lines around it
LAY_PSEP = ["{e}&{e}", "{e}{e}&{e}{e}", "{e} &  {e}", "{e}&{e}{e}"]    # between player sections: '&' on its own line (the property's domain)
LAY_SUFFIX = ["", "{e}", " {e}{e}", " "]             # after the very last row of the text
LAY_LAST = ["zero", "plain", "keysound"]             # the very last cell of the text
LAY_EOL = ["\n", "\r\n"]


def _layout_text(sel, ks_text):
    """(text, expected cells) for one selection of white-space decorations; 2 player sections x 2 measures (2 and 3 rows) x 2
    columns; `sel` = indices into the LAY_* lists; ks_text = rendering of the keysound index of the keysounded cells"""
    e = LAY_EOL[sel["eol"]]
    f = lambda t: t.replace("{e}", e)
    exp, secs = [], []
    chars = ["1", "M", "2", "3"]
    first = True
    for p in range(2):
        ms = []
        for m, rows in enumerate((2, 3)):
            lines = []
            for r in range(rows):
                line = ""
                for c in range(2):
                    last = (p == 1 and m == 1 and r == rows - 1 and c == 1)
                    nz = ((r + c + m + p) % 3 == 0) or (p == 1 and m == 0 and r == 0)
                    if last:
                        nz = LAY_LAST[sel["last"]] != "zero"
                    ch = chars[(r + 2 * c + m + p) % 4] if nz else "0"
                    line += ch
                    if nz:
                        k = None
                        # keysounds: the first non-zero cell, every non-zero cell of player 1's first row (two cells of one
                        # row with the SAME index) and, if asked for, the very last cell
                        if first or (p == 1 and m == 0 and r == 0) or (last and LAY_LAST[sel["last"]] == "keysound"):
                            line += "[" + ks_text + "]"; k = True; first = False
                        exp.append((p, Fraction(4 * m) + Fraction(4 * r, rows), c, ch, k))
                lines.append((LAY_ROWPRE[sel["rowpre"]] if r % 2 else "") + line + LAY_ROWSUF[sel["rowsuf"]])
            ms.append(e.join(lines))
        secs.append(f(LAY_PREFIX[sel["prefix"]]) + f(LAY_MSEP[sel["msep"]]).join(ms))
    text = f(LAY_PSEP[sel["psep"]]).join(secs)
    # the very last row must not carry the row suffix when the text suffix is empty and the case asks for a tight end
    if sel["suffix"] == 0 and LAY_ROWSUF[sel["rowsuf"]]:
        text = text[: -len(LAY_ROWSUF[sel["rowsuf"]])]
    return text + f(LAY_SUFFIX[sel["suffix"]]), exp


def ob_layout(eol, last, budget_s=200):
    """whole-text decoding where every white-space decoration (section prefix, row prefix/suffix, measure separator, player
    separator, text suffix) is a solver-guided case split: all 3*2*2*4*4*4 = 768 combinations per (eol, last cell) are explored"""
    import z3
    symx, mods = _setup()
    N = mods["simfile.notes"]

    def run():
        ksv = z3.Int("ks"); symx.CTL.assume(ksv >= 0)
        sel = dict(eol=eol, last=last)
        for nm, lst in (("prefix", LAY_PREFIX), ("rowpre", LAY_ROWPRE), ("rowsuf", LAY_ROWSUF), ("msep", LAY_MSEP), ("psep", LAY_PSEP), ("suffix", LAY_SUFFIX)):
            sel[nm] = symx.choose("lay_" + nm, len(lst))
        text, exp = _layout_text(sel, str(symx.SymInt(ksv)))
        nd = N.NoteData(text)
        peek = next(iter(nd), None)     # an iteration abandoned after the first note must not affect later ones
        out = list(nd)
        again = list(nd)
        if len(again) != len(out) or any(a.column != b.column or a.player != b.player or a.note_type is not b.note_type for a, b in zip(again, out)):
            return False, ("second iteration differs", len(again), len(out))
        if nd.columns != 2:
            return False, ("columns", nd.columns)
        if str(nd) != text:
            return False, ("str changed",)
        if len(out) != len(exp):
            return False, ("count", len(out), len(exp))
        conds = []
        for note, (p, beat, c, ch, k) in zip(out, exp):
            if note.player != p or note.column != c or note.note_type is not N.NoteType(ch) or (note.keysound_index is None) != (k is None):
                return False, ("cell", p, str(beat), c)
            conds.append(symx.bterm(note.beat == symx.FracShim(beat)))
            if k is not None:
                conds.append(symx.term_of(note.keysound_index) == ksv)
        for a, b in zip(out, out[1:]):
            conds.append(symx.bterm(a < b))
        return z3.And(*conds) if conds else True, ("layout",)
    return symx.explore(run, budget_s=budget_s)


def obligations(tier):
    obs = []
    for o in OPS:
        obs.append(dict(name=f"order {o}", func="ob_order", args=(o,), budget_s=120, bounds="two notes: player, column unbounded ints >= 0, beat any real >= 0, keysound symbolic/None, 3x3 note types"))
    obs.append(dict(name="sorted/min/max", func="ob_sorted", args=(), budget_s=200, bounds="three notes at distinct symbolic positions"))
    rows = [1, 2, 3, 4, 5, 7, 8, 12, 48] if tier == "quick" else ROWS
    for r in rows:
        for cols in ((4,) if tier == "quick" else (1, 4, 6, 16)):
            for v in ((0, 1) if tier == "quick" else (0, 1, 2, 3)):
                obs.append(dict(name=f"measure rows={r} cols={cols} variant={v}", func="ob_measure", args=(r, cols, v), budget_s=120,
                                bounds="player index and measure index unbounded symbolic ints, keysound digits symbolic; cell pattern and white space concrete"))
    for l in range(len(LAYOUTS)):
        for cols in ((4,) if tier == "quick" else (1, 4, 8)):
            obs.append(dict(name=f"text layout={LAYOUTS[l][0]} cols={cols}", func="ob_text", args=(l, cols), budget_s=120, bounds="concrete layout, symbolic keysound digits"))
    for e in range(len(LAY_EOL)):
        for la in range(len(LAY_LAST)):
            obs.append(dict(name=f"layout eol={'CRLF' if e else 'LF'} last-cell={LAY_LAST[la]}", func="ob_layout", args=(e, la), budget_s=300,
                            bounds="2 player sections x 2 measures (2 and 3 rows) x 2 columns; every white-space decoration class (section prefix, row prefix/suffix, "
                                   "measure separator, player separator, text suffix incl. none at all) by solver-guided case split: 768 layouts per obligation; keysound digits symbolic"))
    return obs


def signature(ob, res):
    return ob["func"] + ":" + str(res.get("info"))[:40]


def replay(data):
    import simfile
    from simfile.timing import Beat
    from simfile.notes import Note, NoteType, NoteData
    m = data["model"] or {}; a = data["args"]
    g = lambda k, d="0": Fraction(m.get(k, d))
    if data["func"] == "ob_order":
        opname = a[0]
        mk = lambda i: Note(beat=Beat(g(f"b{i}")), column=int(g(f"c{i}")), note_type=NoteType[TYPES[int(g(f"t{i}"))]], player=int(g(f"p{i}")),
                            keysound_index=int(g(f"k{i}")) if int(g(f"hk{i}")) else None)
        n1, n2 = mk(1), mk(2)
        pos = lambda n: (n.player, n.beat, n.column)
        exp = OPS[opname](pos(n1), pos(n2))
        try:
            got = OPS[opname](n1, n2)
        except TypeError as e:
            return True, f"{n1!r} {opname} {n2!r} raises TypeError: {e}"
        return got != exp, f"{n1!r} {opname} {n2!r} = {got}; position order says {exp}"
    if data["func"] == "ob_sorted":
        ns = [Note(beat=Beat(g(f"b{i}")), column=int(g(f"c{i}")), note_type=NoteType[TYPES[i % 3]], player=int(g(f"p{i}")),
                   keysound_index=int(g(f"k{i}")) if i == 1 else None) for i in range(3)]
        pos = lambda n: (n.player, n.beat, n.column)
        try:
            bad = sorted(ns) != sorted(ns, key=pos) or min(ns) != min(ns, key=pos) or max(ns) != max(ns, key=pos)
        except TypeError as e:
            return True, f"sorted/min/max raise {e}"
        return bad, f"sorted({ns}) = {sorted(ns)}"
    if data["func"] == "ob_measure":
        rows, cols, variant = a
        p_, m_, ks = int(g("p")), int(g("m")), int(g("ks"))
        chars = ["1", "2", "3", "4", "M", "L", "F", "K", "A"]
        cells = {}
        for r in range(rows):
            for c in range(cols):
                if (r * 7 + c * 3 + variant) % 5 == 0 or (r == rows - 1 and c == cols - 1):
                    cells[(r, c)] = chars[(r + c + variant) % len(chars)]
        ksr, ksc = sorted(cells)[variant % len(cells)]
        lines = []
        for r in range(rows):
            line = ""
            for c in range(cols):
                line += cells.get((r, c), "0")
                if (r, c) == (ksr, ksc):
                    line += "[%d]" % ks
            pad = ["", "  ", "\t"][(r + variant) % 3]
            lines.append(pad + line + pad)
        text = ("\r\n" if variant % 2 else "\n").join(lines)
        nd = NoteData.__new__(NoteData); nd._notedata = text; nd._columns = cols
        out = list(nd._iter_measure(p_, m_, text))
        exp = [Note(beat=Beat(4 * m_ * rows + 4 * r, rows), column=c, note_type=NoteType(cells[(r, c)]), player=p_, keysound_index=ks if (r, c) == (ksr, ksc) else None)
               for (r, c) in sorted(cells)]
        return out != exp, f"_iter_measure({p_}, {m_}, {text!r}) = {out}; expected {exp}"
    if data["func"] == "ob_text":
        layout, cols = a
        name, players, eol, deco = LAYOUTS[layout]
        ks = int(g("ks"))
        exp, sections, first = [], [], True
        chars = ["1", "2", "3", "4", "M", "L", "F"]
        for p_, measures in enumerate(players):
            ms = []
            for m_, rows in enumerate(measures):
                lines = []
                for r in range(rows):
                    line = ""
                    for c in range(cols):
                        nz = (r * 5 + c * 3 + m_ + p_) % 7 == 0
                        ch = chars[(r + c + m_) % len(chars)] if nz else "0"
                        line += ch
                        if nz:
                            k = None
                            if first:
                                line += "[%d]" % ks; k = ks; first = False
                            exp.append(Note(beat=Beat(Fraction(4 * m_) + Fraction(4 * r, rows)), column=c, note_type=NoteType(ch), player=p_, keysound_index=k))
                    lines.append(("  " if deco == 1 and r % 2 else "") + line + (" " if deco == 2 else ""))
                ms.append(eol.join(lines))
            sep = eol + "," + (eol if deco != 1 else eol + eol)
            sections.append(("" if deco == 0 else eol) + sep.join(ms) + eol)
        text = ("&" + eol).join(sections)
        nd = NoteData(text)
        next(iter(nd), None)
        out = list(nd)
        bad = out != exp or list(nd) != exp or nd.columns != cols or str(nd) != text or any(not (x < y) for x, y in zip(out, out[1:]))
        first_bad = next(((x, y) for x, y in zip(out, exp) if x != y), None)
        return bad, f"decoding layout {name} with {cols} columns and keysound {ks}: first differing note (got, expected) = {first_bad}; counts {len(out)}/{len(exp)}"
    if data["func"] == "ob_layout":
        e, la = a
        sel = dict(eol=e, last=la)
        for nm in ("prefix", "rowpre", "rowsuf", "msep", "psep", "suffix"):
            sel[nm] = int(g("lay_" + nm))
        ks = int(g("ks"))
        text, exp0 = _layout_text(sel, str(ks))
        exp = [Note(beat=Beat(b), column=c, note_type=NoteType(ch), player=p_, keysound_index=(ks if k else None)) for (p_, b, c, ch, k) in exp0]
        nd = NoteData(text)
        next(iter(nd), None)
        out = list(nd)
        bad = out != exp or list(nd) != exp or nd.columns != 2 or str(nd) != text or any(not (x < y) for x, y in zip(out, out[1:]))
        return bad, f"decoding {text!r}: got {len(out)} notes, expected {len(exp)}; first differing (got, expected) = {next(((x, y) for x, y in zip(out, exp) if x != y), None)}"
    return False, "unknown obligation"


def main(tier):
    from vlib import core
    chk = core.Check(PROP, tier, "harness." + PROP, FUNCTIONS,
                     bounds="ordering: unbounded symbolic fields; placement: rows in %s, 1..16 columns (quick: 4), concrete cell patterns; 5 whole-text layouts" % ROWS,
                     assumptions=ASSUMPTIONS, outside=OUTSIDE)
    chk.add_results(core.run_obligations("harness." + PROP, obligations(tier)))
    return chk.finish(signature)
