"""escapes_real family of C01 / C02 / C04: the REAL msdparser serializer and lexer on concrete tricky values at every site
where the repository hands a string to msdparser (harness/xh_escapes.py holds the cases and the assertions).

Concrete, not symbolic: every case is a fixed (site, value, neighbour value, chart count) tuple, so the solver would only be
an expensive enumerator (measured: ~1 s per case under CrossHair's tracing, 220 s per site; a few ms in plain Python).  The
parameter-level obligations, which ARE solver-decided, replace MSDParameter by a recorder and therefore cannot see a
serializer that escapes - or fails to escape - a component itself; this family closes that gap and is labelled as exhaustive
concrete enumeration in the evidence.  A failure is a real counterexample and is replayed like any other."""
import os, sys


def _mod():
    sys.path.insert(0, os.path.dirname(os.path.abspath(__file__)))
    import xh_escapes
    return xh_escapes


def ob_escapes(fn, site, budget_s=120):
    m = _mod()
    f = getattr(m, fn)
    n, bad = 0, None
    for vi in range(len(m.TRICKY)):
        for wi in range(len(m.WIDX)):
            for second in (False, True):
                n += 1
                args = dict(site=site, vi=vi, wi=wi, second_chart=second)
                try:
                    ok = f(**args)
                except Exception as e:
                    ok, m.LAST = False, ("raises", type(e).__name__, str(e)[:200])
                if not ok and bad is None:
                    bad = (args, m.LAST)
    r = dict(paths=n, checks=0, branches=n, solver_s=0.0, info=None, model=None)
    if bad:
        r.update(status="violated", cex=dict(fn=fn, args=bad[0]), info="%s%r: %s" % (fn, bad[0], str(bad[1])[:300]))
    else:
        r.update(status="discharged", reason="%d concrete cases" % n)
    return r


SM_SITES = ["TITLE", "ZZFRESH", "ATTACKS", "DISPLAYBPM", "stepstype", "description", "difficulty", "meter", "radarvalues", "notes", "extra0", "extra1"]
SSC_SITES = ["TITLE", "ZZFRESH", "ATTACKS", "DISPLAYBPM", "chart:STEPSTYPE", "chart:CREDIT", "chart:ATTACKS", "chart:ZZFRESH", "chart:NOTES", "chart:NOTES2"]


def obligations(which):
    """which: 'sm' / 'ssc' / 'both' -> obligation dicts for core.run_obligations('harness.escconf', ...)"""
    obs = []
    for fn, sites in (("sm_real", SM_SITES), ("ssc_real", SSC_SITES)):
        if which != "both" and not fn.startswith(which):
            continue
        for i, s in enumerate(sites):
            obs.append(dict(name=f"escapes_real[{fn[:-5]}:{s}]", func="ob_escapes", args=(fn, i), budget_s=120,
                            bounds="exhaustive concrete enumeration (not solver-decided), REAL msdparser serializer and lexer: each of 35 tricky values (every MSD metacharacter alone / "
                                   "leading / inner / trailing / paired, LF / CR / CRLF and the other Unicode line boundaries, non-ASCII) at this site x 4 neighbour values x 1..2 charts: serializes, strict parse gives the same "
                                   "simfile, second serialization identical, auto-detected, object unchanged by serializing"))
    return obs


def replay(data):
    """(reproduced, message) for a recorded escapes_real counterexample"""
    m = _mod()
    cex = data.get("cex") or {}
    f = getattr(m, cex["fn"])
    try:
        ok = f(**cex["args"])
    except Exception as e:
        return True, "%s(%s) raises %s: %s" % (cex["fn"], cex["args"], type(e).__name__, e)
    return (not ok), "%s(%s) returned %r; %s" % (cex["fn"], cex["args"], ok, str(m.LAST)[:400])
