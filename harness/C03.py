"""C03 — loading builds exactly the documented object through every entry point (engine xh; partial)."""
from vlib import xhprop

PROP = "C03"
FILE = "xh_C03.py"
FUNCTIONS = ["SMSimfile._parse", "SSCSimfile._parse", "SSCChart._parse / from_str", "SMChart.from_msd / from_str / _from_msd", "simfile.load / loads / _detect_ssc",
             "BaseSimfile.__init__ (file / string / iterator handling, strict)"]
ASSUMPTIONS = [
    "the tokenizer (msdparser.parse_msd) is the trusted base: the documented rules are decided on parameter streams (2 symbolic parameters after 7 concrete prefixes; keys from 11 spellings; 0..3 components of <=2 arbitrary characters; NOTES with 5..7 components)",
    "entry points / format detection / strictness: a concrete family of 9 texts (stray text, BOM, lower-case keys, missing semicolon, comments, CRLF) x 6 entry points x strict; the file-name rule is decided as a unit for a symbolic suffix (<=4 characters over '.sScCmMbakt', with and without a stem) and composed with the entry points through 11 representative names",
]
OUTSIDE = ["'for any text' at character level beyond 2 (thorough: 3) characters over a 9-letter MSD alphabet (chars_sm obligation); longer texts are decided on parameter streams", "simfile.open(filename) on the native filesystem (C05 covers open over the model filesystem)",
           "texts ending in an unpaired backslash (excluded by the property)"]


def obligations(tier):
    T = 120 if tier == "quick" else 600
    obs = [dict(name="selftest_strip", func="selftest_strip", file="xhlib.py", timeout=60, bounds="engine self-test")]
    for f in ("rules_sm", "rules_ssc"):
        if tier == "quick":
            pfxs = (0, 5) if f == "rules_sm" else (0, 4)
            k1s = (0, 1, 2, 3, 4, 7, 8) if f == "rules_sm" else (0, 1, 2, 3, 4, 7, 8, 10, 11)
        else:
            pfxs, k1s = range(7), range(13)
        for pfx in pfxs:
            for k1 in k1s:
                for n1 in range(4):
                    obs.append(dict(name=f"{f}[prefix{pfx},k1={k1},n1={n1}]", func=f, pre=f"pfx == {pfx} and k1 == {k1} and n1 == {n1}", timeout=(2 * T if (f == "rules_sm" and k1 in (3, 8) and n1 >= 2) else T),
                                    bounds="2 symbolic parameters after a concrete prefix: first key spelling and shape fixed per obligation, second from 6 spellings x 4 shapes; components <=2 arbitrary chars"))
    for n in range(3, 9):
        for vs in (False, True):
            obs.append(dict(name=f"rules_smchart[n={n},from_str={vs}]", func="rules_smchart", pre=f"n == {n} and via_str == {vs}", timeout=T, bounds="from_msd / from_str with n components, up to three symbolic <=2"))
    for stem in (False, True):
        for vf in (False, True):
            obs.append(dict(name=f"name_rule[stem={stem},version_first={vf}]", func="name_rule", pre=f"stem == {stem} and vfirst == {vf}", timeout=T,
                            bounds="file-name suffix symbolic <=4 over '.sScCmMbakt' (with/without stem) against an index-based oracle"))
    for ti in range(9):
        for entry in range(6):
            obs.append(dict(name=f"entrypoints[text{ti},entry{entry}]", func="entrypoints", pre=f"ti == {ti} and entry == {entry}" + ("" if entry == 3 else " and ni == 0"), timeout=T,
                            bounds="strict symbolic; for the named-file entry point the name is chosen by symbolic index from 11 representatives of every class the name rule distinguishes"))
    obs.append(dict(name="chart_from_str", func="chart_from_str", timeout=T, bounds="3 concrete chart texts x strict"))
    if tier == "quick":
        obs.append(dict(name="chars_sm[|text|<=2]", func="chars_sm", pre="len(text) <= 2", timeout=2 * T,
                        bounds="character level: every text of <= 2 characters over the MSD alphabet '#:;/\\\\n aN' through the real lexer, strict symbolic"))
    else:
        for st in (False, True):
            obs.append(dict(name=f"chars_sm[|text|<=3,strict={st}]", func="chars_sm", pre=f"strict == {st}", timeout=2 * T,
                            bounds="character level: every text of <= 3 characters over the MSD alphabet through the real lexer"))
    return obs


def signature(ob, res):
    cex = res.get("cex") or {}
    if ob["func"] == "entrypoints":
        return "entrypoints:entry%s:strict=%s" % (cex.get("entry"), cex.get("strict"))
    return ob["func"]


def replay(data):
    from vlib import xh
    return xh.replay("xh_C03", data)


def main(tier):
    return xhprop.main(PROP, tier, FILE, obligations(tier), FUNCTIONS, ASSUMPTIONS, OUTSIDE, signature,
                       bounds="parameter streams of <=5 parameters (2 symbolic), components <=2 chars; 9 texts x 6 entry points x strict x name suffix <=4")
