"""C13 — hittability and note timing follow the warp rules exactly (engine symx)."""
from fractions import Fraction
from harness import timing_common as tc

PROP = "C13"
MODS = ("simfile.timing", "simfile.timing.engine", "simfile.notes", "simfile.notes.timed")
FUNCTIONS = ["TimingEngine.hittable", "simfile.notes.timed.time_notes", "TimingEngine.time_at", "TimingEngine._coalesce_warps", "TimingEngine._retime_events"]
ASSUMPTIONS = [
    "floats are modelled as exact reals (DESIGN 2.3)",
    "time_notes is given a list of Note objects as note_data (it only iterates its argument); note-data text decoding is C07's subject",
    "shim classes stand in for Fraction/float/Decimal/int",
]
OUTSIDE = ["more than 4 timing events / 2 notes", "positions beyond the tick grid", "IEEE rounding of the reported times"]
KINDS = ["TAP", "HOLD_HEAD", "TAIL", "MINE", "FAKE", "LIFT"]
OPTIONS = ["TAP_TO_FAKE", "DROP_NOTE", "KEEP_NOTE"]


def _setup():
    from vlib import symx
    symx.FLOAT_FAITHFUL = False      # worker processes are reused: only the *_floats obligations switch it on (after this call)
    return symx, symx.load_shimmed(MODS)


def ob_hittable(shape, G, budget_s=120):
    """hittable(q) == not (q in union of [warp start, warp end)) or a stop/delay sits on q"""
    import z3
    symx, mods = _setup()
    E = mods["simfile.timing.engine"]; Beat = mods["simfile.timing"].Beat

    def run():
        V = tc.sym_timing(shape, G)
        kq = symx.fresh_int("kq", -G, 3 * G)
        eng = E.TimingEngine(tc.build_td(mods, V))
        got = eng.hittable(Beat(symx.SymInt(kq), 48))
        if isinstance(got, symx.SymBool):
            got = bool(got)
        exp = tc.oracle_hittable(V, kq)
        return (exp if got else z3.Not(exp)), ("hittable", shape, got)
    return symx.explore(run, budget_s=budget_s)


def ob_hittable_floats(shape, G, budget_s=120):
    """hittable(q) with IEEE-faithful floats: BPM, pause lengths and offset concrete, every position symbolic; any float() of a
    position pins it (value choice), so code that routes beats through doubles (1/3 is not a double) is executed faithfully.
    Stated cut: this family enumerates the positions it pins; it exists because 'floats are reals' hides double rounding."""
    import z3
    symx, mods = _setup()
    symx.FLOAT_FAITHFUL = True
    E = mods["simfile.timing.engine"]; Beat = mods["simfile.timing"].Beat

    def run():
        den = tc.time_unit_den((120,))
        V = tc.sym_timing(shape, G, sym_bpm=False, bpm_values=(120,), den=den)
        for n in V.get("ns", []) + V.get("nd", []):
            symx.CTL.assume(n == den // 4)
        symx.CTL.assume(V["noff"] == 0)
        kq = symx.fresh_int("kq", 0, 2 * G)
        eng = E.TimingEngine(tc.build_td(mods, V))
        got = eng.hittable(Beat(symx.SymInt(kq), 48))
        if isinstance(got, symx.SymBool):
            got = bool(got)
        exp = tc.oracle_hittable(V, kq)
        return (exp if got else z3.Not(exp)), ("hittable_floats", shape, got)
    return symx.explore(run, budget_s=budget_s)


def ob_time_notes(shape, G, nnotes, option, budget_s=120):
    """time_notes: order kept, time == time_at(beat), fields unchanged, unhittable notes kept/dropped/faked per option"""
    import z3
    symx, mods = _setup()
    E = mods["simfile.timing.engine"]; T = mods["simfile.timing"]; N = mods["simfile.notes"]; TN = mods["simfile.notes.timed"]
    Beat, Note, NoteType = T.Beat, N.Note, N.NoteType

    def run():
        V = tc.sym_timing(shape, G)
        td = tc.build_td(mods, V)
        notes, meta = [], []
        for i in range(2 if nnotes == 22 else nnotes):
            k = symx.fresh_int(f"nk{i}", 0, 3 * G)
            kinds = KINDS if nnotes == 1 else (KINDS[:1] + KINDS[3:4] if nnotes == 2 else ["TAP", "MINE", "HOLD_HEAD", "TAIL"])
            # two notes: TAP and one non-tap representative (MINE); nnotes == 22: two notes over TAP/MINE/HOLD_HEAD/TAIL (head and tail pairs)
            kind = kinds[symx.choose(f"kind{i}", len(kinds))]
            col = symx.fresh_int(f"col{i}", 0, 15)
            pl = symx.fresh_int(f"pl{i}", 0, 2)
            if nnotes == 22:   # one lane: column and player are pinned by case split (code that hashes the lane must not fan out)
                symx.CTL.assume(col == (symx.choose("lanecol", 2) if i == 0 else meta[0][5]), pl == (symx.choose("lanepl", 2) if i == 0 else meta[0][6]))
            if i:   # note data order: by (player, beat) - a later player's notes start again at low beats (routine charts)
                symx.CTL.assume(z3.Or(pl > meta[i - 1][3], z3.And(pl == meta[i - 1][3], k >= meta[i - 1][0])))
            has_ks = symx.choose(f"hks{i}", 2) if nnotes == 1 else (1 - i % 2)
            ks = symx.fresh_int(f"ks{i}", 0, None) if has_ks else None
            if nnotes == 22:
                m_ = symx.CTL.current_model()
                ccol, cpl = m_.eval(col, model_completion=True).as_long(), m_.eval(pl, model_completion=True).as_long()
                notes.append(Note(beat=Beat(symx.SymInt(k), 48), column=ccol, note_type=NoteType[kind], player=cpl,
                                  keysound_index=symx.SymInt(ks) if has_ks else None))
                meta.append((k, kind, col, pl, ks, ccol, cpl))
                continue
            notes.append(Note(beat=Beat(symx.SymInt(k), 48), column=symx.SymInt(col), note_type=NoteType[kind],
                              player=symx.SymInt(pl), keysound_index=symx.SymInt(ks) if has_ks else None))
            meta.append((k, kind, col, pl, ks))
        out = list(TN.time_notes(notes, td, TN.UnhittableNotes[option]))
        # expectation
        exp = []
        for i, (k, kind, col, pl, ks) in enumerate(mt[:5] for mt in meta):
            hit = symx.CTL.branch(tc.oracle_hittable(V, k))
            if hit or option == "KEEP_NOTE":
                exp.append((i, kind))
            elif option == "TAP_TO_FAKE" and kind == "TAP":
                exp.append((i, "FAKE"))
        if len(out) != len(exp):
            return False, ("count", len(out), len(exp))
        conds = []
        for tn, (i, kind) in zip(out, exp):
            k, _, col, pl, ks = meta[i][:5]
            n = tn.note
            if type(n) is not Note or n.note_type is not NoteType[kind]:
                return False, ("type", i, str(n.note_type), kind)
            if (n.keysound_index is None) != (ks is None):
                return False, ("keysound presence", i)
            conds.append(symx.bterm(n.beat == tc.tick(k)))
            conds.append(symx.bterm(n.column == symx.SymInt(col)))
            conds.append(symx.bterm(n.player == symx.SymInt(pl)))
            if ks is not None:
                conds.append(symx.bterm(n.keysound_index == symx.SymInt(ks)))
            want = tc.rterm(tc.oracle_time(V, k, 5))
            if not symx.poly_identity(tn.time._v, want):
                conds.append(symx.zr(symx.term_of(tn.time)) == want)
        return z3.And(*conds) if conds else True, ("time_notes", shape, option)
    return symx.explore(run, budget_s=budget_s)


def obligations(tier):
    obs = []
    if tier == "quick":
        G, b = 12, 150
        for s in tc.shapes(3):
            if s[3] == 0 and sum(s) > 1:
                continue  # without warps every beat is hittable: keep only the small shapes
            obs.append(dict(name=f"hittable{s}/G{G}", func="ob_hittable", args=(s, G), budget_s=b, bounds=f"shape {s}, ticks 0..{G}, query -{G}..{3*G}"))
        for s in [(0, 0, 0, 1), (0, 1, 0, 1), (0, 0, 1, 1)]:
            for o in OPTIONS:
                obs.append(dict(name=f"time_notes{s}/1note/{o}", func="ob_time_notes", args=(s, G, 1, o), budget_s=b,
                                bounds=f"shape {s}, 1 note: symbolic tick/column/player/keysound(or none), kind case split over {KINDS}"))
        for o in OPTIONS:
            obs.append(dict(name=f"time_notes(0, 0, 0, 1)/2notes-same-lane/{o}", func="ob_time_notes", args=((0, 0, 0, 1), 6, 22, o), budget_s=b,
                            bounds="one warp, 2 notes on one (player, column) lane over TAP/MINE/HOLD_HEAD/TAIL (a head inside the warp and its tail outside, ...)"))
        for o in OPTIONS:
            obs.append(dict(name=f"time_notes(0, 0, 0, 1)/2notes/{o}", func="ob_time_notes", args=((0, 0, 0, 1), 6, 2, o), budget_s=b, bounds="one warp, 2 notes in (player, beat) order: the second note may lie earlier than the first when its player is higher"))
        for s, g in (((0, 0, 0, 1), 6), ((0, 1, 0, 1), 4), ((0, 0, 1, 1), 4)):
            obs.append(dict(name=f"hittable_floats{s}/G{g}", func="ob_hittable_floats", args=(s, g), budget_s=b,
                            bounds=f"shape {s}, ticks 0..{g}, IEEE-faithful floats: positions pinned wherever the code converts a beat to a double; BPM 120, pauses 0.25 s"))
        # three warps in every arrangement (nested, overlapping, touching)
        obs.append(dict(name="hittable(0, 0, 0, 3)/G8", func="ob_hittable", args=((0, 0, 0, 3), 8), budget_s=b, bounds="three warps, ticks 0..8"))
        obs.append(dict(name="hittable(0, 1, 0, 3)/G5", func="ob_hittable", args=((0, 1, 0, 3), 5), budget_s=b, bounds="three warps and a stop, ticks 0..5"))
        obs.append(dict(name="time_notes(0, 0, 0, 3)/1note/TAP_TO_FAKE", func="ob_time_notes", args=((0, 0, 0, 3), 4, 1, "TAP_TO_FAKE"), budget_s=2 * b, bounds="three warps, ticks 0..4, 1 note"))
    else:
        G, b = 48, 1500
        for s in tc.shapes(4):
            if s[3] == 0 and sum(s) > 1:
                continue
            obs.append(dict(name=f"hittable{s}/G{G}", func="ob_hittable", args=(s, G), budget_s=b, bounds=f"shape {s}, ticks 0..{G}"))
        for s in [x for x in tc.shapes(3) if x[3] >= 1]:
            for o in OPTIONS:
                obs.append(dict(name=f"time_notes{s}/1note/{o}", func="ob_time_notes", args=(s, 12, 1, o), budget_s=b, bounds=f"shape {s}, 1 note"))
        for s3, g in (((0, 0, 0, 3), 24), ((0, 1, 0, 3), 10), ((0, 0, 1, 3), 10), ((1, 0, 0, 3), 10)):
            obs.append(dict(name=f"hittable{s3}/G{g}", func="ob_hittable", args=(s3, g), budget_s=b, bounds=f"shape {s3}: three warps, ticks 0..{g}"))
        for o in OPTIONS:
            obs.append(dict(name=f"time_notes(0, 0, 0, 3)/1note/{o}", func="ob_time_notes", args=((0, 0, 0, 3), 10, 1, o), budget_s=b, bounds="three warps, 1 note"))
        for s in [(0, 0, 0, 1), (0, 1, 0, 1), (0, 0, 1, 1), (1, 0, 0, 1)]:
            for o in OPTIONS:
                obs.append(dict(name=f"time_notes{s}/2notes/{o}", func="ob_time_notes", args=(s, 8, 2, o), budget_s=b, bounds=f"shape {s}, 2 notes"))
    return obs


def signature(ob, res):
    if ob["func"] == "ob_time_notes":
        return "ob_time_notes:" + ob["args"][3] + ":" + str(res.get("info"))[:40]
    return ob["func"] + ":" + str(tuple(ob["args"][0]))


def replay(data):
    import simfile
    from simfile.timing import Beat
    from simfile.timing.engine import TimingEngine
    from simfile.notes import Note, NoteType
    from simfile.notes.timed import time_notes, UnhittableNotes
    m = data["model"]; func = data["func"]; shape = tuple(data["args"][0])
    g = lambda n, d="0": Fraction(m.get(n, d))
    if func == "ob_hittable_floats":
        m = dict(m); m["b0"] = "120"; m["__den__"] = str(tc.time_unit_den((120,)))
    c = tc.model_timing(m, shape)
    td = tc.real_td(c)
    if func in ("ob_hittable", "ob_hittable_floats"):
        q = Fraction(int(g("kq")), 48)
        got = TimingEngine(td).hittable(Beat(q)); exp = tc.exact_hittable(c, q)
        return got != exp, f"hittable({q}) = {got}, expected {exp}; timing={c}"
    nn, option = data["args"][2], data["args"][3]
    notes = []
    for i in range(2 if nn == 22 else nn):
        kind = (KINDS if nn == 1 else KINDS[:1] + KINDS[3:4] if nn == 2 else ["TAP", "MINE", "HOLD_HEAD", "TAIL"])[int(g(f"kind{i}"))]
        ks = int(g(f"ks{i}")) if (int(g(f"hks{i}")) if nn == 1 else 1 - i % 2) else None
        notes.append(Note(beat=Beat(int(g(f"nk{i}")), 48), column=int(g(f"col{i}")), note_type=NoteType[kind], player=int(g(f"pl{i}")), keysound_index=ks))
    out = list(time_notes(notes, td, UnhittableNotes[option]))
    exp = []
    for n in notes:
        hit = tc.exact_hittable(c, Fraction(n.beat))
        if hit or option == "KEEP_NOTE":
            exp.append(n)
        elif option == "TAP_TO_FAKE" and n.note_type is NoteType.TAP:
            exp.append(n._replace(note_type=NoteType.FAKE))
    bad = [tn.note for tn in out] != exp
    for tn in out:
        if abs(float(tn.time) - float(tc.exact_time(c, Fraction(tn.note.beat), 5))) > 1e-9:
            bad = True
    return bad, f"time_notes({notes}, {option}) -> {[ (float(t.time), t.note) for t in out]}; expected notes {exp}; timing={c}"


def main(tier):
    from vlib import core
    chk = core.Check(PROP, tier, "harness." + PROP, FUNCTIONS,
                     bounds={"quick": "hittable: <=3 timing events on ticks 0..12; time_notes: 1 note x 3 shapes and 2 notes x one warp, 3 options, 6 note kinds",
                             "thorough": "hittable: <=4 events on ticks 0..48; time_notes: 1 note x all warp shapes <=3 events, 2 notes x 4 shapes"}[tier],
                     assumptions=ASSUMPTIONS, outside=OUTSIDE)
    chk.add_results(core.run_obligations("harness." + PROP, obligations(tier)))
    return chk.finish(signature)
