"""C20 — asset lookup: the named file if it exists, else a pattern match, else None (CrossHair harness, unit + logic)."""
import xhlib
from xhlib import ModelFS
from simfile.assets import Assets, ASSET_DEFINITIONS
from simfile.dir import SimfilePack
from simfile.sm import SMSimfile
from simfile.ssc import SSCSimfile

LAST = None
KINDS = ["BANNER", "BACKGROUND", "CDTITLE", "JACKET", "CDIMAGE", "MUSIC"]   # DISC is not claimed (reads a DISC key; the suite pins that)
ATTR = {"BANNER": "banner", "BACKGROUND": "background", "CDTITLE": "cdtitle", "JACKET": "jacket", "CDIMAGE": "cdimage", "MUSIC": "music"}
FRAGS = ["banner", "bn", "background", "bg", "cdtitle", "jk_", "jacket", "albumart", "-cd", "", "bnx", "disc"]
EXTS = [".png", ".PNG", ".jpg", ".ogg", ".Mp3", ".txt", "", ".wav.bak"]
ALPHABET = "abBgnd-_ kXj"   # letters that can complete or spoil a pattern at its edges, plus upper case, blank and separators


def _lower(s):
    return s.lower()


def _starts(s, p):
    if len(s) < len(p):
        return False
    for i in range(len(p)):
        if s[i] != p[i]:
            return False
    return True


def _ends(s, p):
    n, m = len(s), len(p)
    if n < m:
        return False
    for i in range(m):
        if s[n - m + i] != p[i]:
            return False
    return True


def _contains(s, p):
    n, m = len(s), len(p)
    for i in range(n - m + 1):
        ok = True
        for j in range(m):
            if s[i + j] != p[j]:
                ok = False
                break
        if ok:
            return True
    return False


def documented_match(kind, stem_lower, name_lower):
    """the documented pattern per asset kind, written without regular expressions"""
    if kind == "BANNER":
        return _contains(stem_lower, "banner") or _ends(stem_lower, "bn")
    if kind == "BACKGROUND":
        return _contains(stem_lower, "background") or _ends(stem_lower, "bg")
    if kind == "CDTITLE":
        return _contains(stem_lower, "cdtitle")
    if kind == "JACKET":
        return _starts(stem_lower, "jk_") or _contains(stem_lower, "jacket") or _contains(stem_lower, "albumart")
    if kind == "CDIMAGE":
        return _ends(stem_lower, "-cd")
    if kind == "MUSIC":
        return _ends(name_lower, ".mp3") or _ends(name_lower, ".oga") or _ends(name_lower, ".ogg") or _ends(name_lower, ".wav")
    raise AssertionError(kind)


def match_unit(kind: int, ch: str, before: bool, frag: int, ext: int) -> bool:
    """
    pre: 0 <= kind < len(KINDS) and 0 <= frag < len(FRAGS) and 0 <= ext < len(EXTS)
    pre: len(ch) <= 1
    pre: all(c in ALPHABET for c in ch)
    post: _
    """
    # the whole matches() method (splitext, lower-casing, any() over presets, extension rule) on names built from a pattern
    # fragment with one symbolic character before or after it; the regular expressions themselves are decided for ALL
    # stems by the z3 obligations of C20.py (presets_z3)
    stem = (ch + FRAGS[frag]) if before else (FRAGS[frag] + ch)
    name = stem + EXTS[ext]
    got = ASSET_DEFINITIONS[KINDS[kind]].matches(name)
    import os
    root, _ = os.path.splitext(name)
    return got == documented_match(KINDS[kind], root.lower(), name.lower())


# representatives of every class the unit distinguishes, per kind: (name, class)
REPS = ["banner.png", "songBN.PNG", "Background.jpg", "xbg.png", "cdtitle.png", "jk_song.jpg", "AlbumArt.png", "song-cd.png", "track.ogg", "SONG.MP3",
        "readme.txt", "bnx.png", "sub"]


def lookup(kind: int, e0: int, e1: int, e2: int, n: int, spec: int, ssc: bool, rel: bool) -> bool:
    """
    pre: 0 <= kind < len(KINDS) and 0 <= e0 < len(REPS) and 0 <= e1 < len(REPS) and 0 <= e2 < len(REPS) and 0 <= n <= 3 and 0 <= spec <= 7
    pre: e0 != e1 and e1 != e2 and e0 != e2
    post: _
    """
    return _lookup(KINDS[kind], [REPS[e0], REPS[e1], REPS[e2]][:n], spec, ssc, rel)


# names that hit the patterns of two asset kinds at once
MULTI_REPS = ["banner bg.png", "cdtitle bn.png", "Jacket-CD.png", "readme.txt", "AlbumArt bg.JPG", "ogg", "PNG"]   # the last two: names that spell an extension but have none


def lookup_multi(kind: int, e0: int, e1: int, n: int, spec: int, ssc: bool) -> bool:
    """
    pre: 0 <= kind < len(KINDS) and 0 <= e0 < len(MULTI_REPS) and 0 <= e1 < len(MULTI_REPS) and 1 <= n <= 2 and 0 <= spec <= 3
    pre: e0 != e1
    post: _
    """
    # every kind is asked independently: an entry whose name matches the patterns of two kinds is a valid answer for both
    return _lookup(KINDS[kind], [MULTI_REPS[e0], MULTI_REPS[e1]][:n], spec, ssc, False)


def _lookup(K, names, spec, ssc, rel):
    global LAST
    import os
    # the directory as an absolute path or as a bare relative name (several representatives start with that name)
    d = "song" if rel else "/songs/pack/song"
    listing = {d: list(names), d + "/sub": ["Inner.PNG", "clip.ogg"]}
    dirs = {"/songs", "/songs/pack", d}
    files = {}
    for nm in names:
        if nm == "sub":
            dirs.add(d + "/sub")
            files[d + "/sub/Inner.PNG"] = ""
            files[d + "/sub/clip.ogg"] = ""
        else:
            files[d + "/" + nm] = ""
    if "sub" not in names:
        del listing[d + "/sub"]
    fs = ModelFS(files, dirs=dirs, listing=listing)
    sf = SSCSimfile(string="") if ssc else SMSimfile(string="")
    sf["TITLE"] = "t"
    # what the simfile names: absent / empty / an existing entry in another letter case / a missing file /
    # a file in an existing sub-directory (other case) / a file in a missing sub-directory / entry 0 exactly / a directory-less odd name
    specified = None
    if spec == 1:
        specified = ""
    elif spec == 2 and names:
        specified = names[0].swapcase()
    elif spec == 3:
        specified = "missing.png"
    elif spec == 4:
        specified = "sub/inner.png" if K != "MUSIC" else "sub/CLIP.OGG"
    elif spec == 5:
        specified = "nosuchdir/x.png"
    elif spec == 6 and names:
        specified = names[0]
    elif spec == 7:
        specified = "sub/missing.png"
    if specified is not None:
        sf[K] = specified
    a = Assets(d, simfile=sf, filesystem=fs)
    got = getattr(a, ATTR[K])
    again = getattr(a, ATTR[K])
    if got != again:
        LAST = ("second read differs", got, again)
        return False
    # expected: the named file if it exists (case-insensitive file name)
    named = None
    if specified:
        if "/" in specified:
            sub, fname = specified.split("/")
            if (d + "/" + sub) in dirs:
                for item in listing.get(d + "/" + sub, []):
                    if item.lower() == fname.lower():
                        named = d + "/" + sub + "/" + item
                        break
        else:
            for item in names:
                if item.lower() == specified.lower():
                    named = d + "/" + item
                    break
    if named is not None:
        if got != named:
            LAST = ("named file not returned", got, named)
            return False
        return True
    matching = [d + "/" + nm for nm in names if documented_match(K, os.path.splitext(nm)[0].lower(), nm.lower())]
    if not matching:
        if got is not None:
            LAST = ("no entry matches but got", got)
            return False
        return True
    if got not in matching:
        LAST = ("result is not a matching entry", got, matching)
        return False
    return fs.exists(got)


def empty_simfile(kind: int, has_match: bool) -> bool:
    """
    pre: 0 <= kind < len(KINDS)
    post: _
    """
    # a simfile object that was explicitly supplied is used even if it has no properties at all
    K = KINDS[kind]
    d = "/songs/pack/song"
    nm = {"BANNER": "banner.png", "BACKGROUND": "bg.png", "CDTITLE": "cdtitle.png", "JACKET": "jacket.png", "CDIMAGE": "x-cd.png", "MUSIC": "a.ogg"}[K]
    names = [nm] if has_match else ["readme.txt"]
    fs = ModelFS({d + "/" + n: "" for n in names}, dirs={d}, listing={d: names})
    sf = SMSimfile(string="")
    try:
        a = Assets(d, simfile=sf, filesystem=fs)
    except FileNotFoundError:
        return False
    got = getattr(a, ATTR[K])
    return got == (d + "/" + nm if has_match else None)


PACK_IMGS = ["b.png", "a.PNG", "c.jpg", "d.jpeg", "e.gif", "f.bmp", "notes.txt", "song", "gif", "PNG"]   # the last two: names that spell an extension but have none
PRIORITY = [".png", ".jpg", ".jpeg", ".gif", ".bmp"]


def pack_banner(i0: int, i1: int, n: int, beside: int) -> bool:
    """
    pre: 0 <= i0 < len(PACK_IMGS) and 0 <= i1 < len(PACK_IMGS) and i0 != i1 and 0 <= n <= 2 and 0 <= beside <= 6
    post: _
    """
    p = "/songs/mypack"
    inside = [PACK_IMGS[i0], PACK_IMGS[i1]][:n]
    files = {p + "/" + nm: "" for nm in inside if nm != "song"}
    dirs = {"/songs", p}
    listing = {p: list(inside), "/songs": ["mypack"]}
    if "song" in inside:
        dirs.add(p + "/song")
        listing[p + "/song"] = []
    # an image beside the pack carrying the pack's name (or a near miss)
    besides = [None, "mypack.png", "mypack.jpg", "mypack.bmp", "mypack2.png", "other.png", "mypack.gif"][beside]
    if besides:
        files["/songs/" + besides] = ""
        listing["/songs"].append(besides)
    fs = ModelFS(files, dirs=dirs, listing=listing)
    got = SimfilePack(p, filesystem=fs).banner()
    exp = None
    for ext in PRIORITY:
        cands = [nm for nm in inside if nm.lower().endswith(ext)]
        if cands:
            exp = [p + "/" + c for c in cands]
            break
    if exp is not None:
        return got in exp
    for ext in PRIORITY:
        if besides == "mypack" + ext:
            return got == "/songs/" + besides
    return got is None
