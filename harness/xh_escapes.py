"""C01 / C02 / C04 — escaping sites with the REAL msdparser serializer and lexer on concrete tricky values (CrossHair
drives the finite choice of site and value; everything on a path is concrete).  The parameter-level obligations replace
MSDParameter by a recorder, so a serializer that escapes (or fails to escape) some component on its own is invisible to
them; this family closes that gap for every place where the repository hands a string to msdparser."""
import xhlib
import simfile
from simfile.sm import SMSimfile, SMChart
from simfile.ssc import SSCSimfile, SSCChart

LAST = None
# every MSD metacharacter alone, at the start, in the middle and at the end of a value, and in pairs; none of them falls in
# the escaping gaps the properties exclude ('#' after a line break, three or more '/', keys containing '#')
TRICKY = ["\\", "a\\b", "x\\", "\\x", ":", "a:b", ";", "a;b", "x;", "//", "a//b", "x//", "//x", "\\//", "a\\:b;c", "#", "a#b", "x\\\\",
          "a\nb", "a\\\nb", "plain", "", "é日本", ":\\", ";\\", "/", "a/b", "/x/",
          "a\rb", "a\r\nb", "x\r", "a\x0cb", "a\u2028b", "a\x85b", "a\tb"]
SM_SITES = ["TITLE", "ZZFRESH", "ATTACKS", "DISPLAYBPM", "stepstype", "description", "difficulty", "meter", "radarvalues", "notes", "extra0", "extra1"]
SSC_SITES = ["TITLE", "ZZFRESH", "ATTACKS", "DISPLAYBPM", "chart:STEPSTYPE", "chart:CREDIT", "chart:ATTACKS", "chart:ZZFRESH", "chart:NOTES", "chart:NOTES2"]


def _canon_ssc(sf):
    charts = []
    for ch in sf.charts:
        items = list(ch.items())
        nk = "NOTES" if "NOTES" in ch else "NOTES2"
        charts.append([kv for kv in items if kv[0] != nk] + [kv for kv in items if kv[0] == nk])
    return (list(sf.items()), charts)


WIDX = [20, 0, 5, 9]   # the second value: plain, a backslash, 'a:b', '//'


def sm_real(site: int, vi: int, wi: int, second_chart: bool) -> bool:
    """
    pre: 0 <= site < len(SM_SITES) and 0 <= vi < len(TRICKY) and 0 <= wi < len(WIDX)
    post: _
    """
    global LAST
    xhlib.install_real()
    try:
        v, w = TRICKY[vi], TRICKY[WIDX[wi]]
        s = SM_SITES[site]
        sf = SMSimfile(string="")
        sf["TITLE"] = "t"
        sf["ARTIST"] = w                       # a second tricky value next to the first one
        fields = ["dance-single", "d", "Hard", "9", "0,0", "0000\n0000"]
        extra = []
        if s in ("TITLE", "ZZFRESH", "ATTACKS", "DISPLAYBPM"):
            sf[s] = v
        elif s.startswith("extra"):
            extra = [v] if s == "extra0" else ["e", v]
            if s == "extra0" and v.startswith("#"):
                return True                    # excluded by the property: the note data ends with a line break, so this '#' follows a line break through ':'
        else:
            i = ["stepstype", "description", "difficulty", "meter", "radarvalues", "notes"].index(s)
            fields[i] = v.strip()
            if s == "notes" and fields[i].startswith("#"):
                return True                    # excluded by the property: '#' at the very start of SM note data
        ch = SMChart.from_msd(fields + extra)
        sf.charts.append(ch)
        if second_chart:
            sf.charts.append(SMChart.blank())
        try:
            text = str(sf)
        except Exception as e:
            LAST = ("cannot be serialized", type(e).__name__, str(e)[:120])
            return False
        back = SMSimfile(string=text)          # strict parse
        if list(back.items()) != list(sf.items()) or len(back.charts) != len(sf.charts):
            LAST = ("properties differ", list(back.items()), list(sf.items()))
            return False
        for a, b in zip(back.charts, sf.charts):
            if list(a.items()) != list(b.items()) or (a.extradata or []) != (b.extradata or []):
                LAST = ("chart differs", list(a.items()), a.extradata, list(b.items()), b.extradata)
                return False
        if back != sf or str(back) != text:
            LAST = ("not equal / second serialization differs",)
            return False
        auto = simfile.loads(text)
        if type(auto) is not SMSimfile or auto != sf:
            LAST = ("auto-detection", type(auto).__name__)
            return False
        return True
    finally:
        xhlib.install_stub()


def ssc_real(site: int, vi: int, wi: int, second_chart: bool) -> bool:
    """
    pre: 0 <= site < len(SSC_SITES) and 0 <= vi < len(TRICKY) and 0 <= wi < len(WIDX)
    post: _
    """
    global LAST
    xhlib.install_real()
    try:
        v, w = TRICKY[vi], TRICKY[WIDX[wi]]
        s = SSC_SITES[site]
        sf = SSCSimfile(string="")
        sf["VERSION"] = "0.83"
        sf["TITLE"] = "t"
        sf["ARTIST"] = w
        ch = SSCChart()
        ch["STEPSTYPE"] = "dance-single"
        ch["DESCRIPTION"] = w
        nkey = "NOTES2" if s == "chart:NOTES2" else "NOTES"
        if s.startswith("chart:"):
            k = s[6:]
            if k in ("NOTES", "NOTES2"):
                ch[nkey] = v
            else:
                ch[k] = v
                ch[nkey] = "0000\n0000"
        else:
            sf[s] = v
            ch[nkey] = "0000\n0000"
        sf.charts.append(ch)
        if second_chart:
            sf.charts.append(SSCChart.blank())
        want = _canon_ssc(sf)
        try:
            text = str(sf)
        except Exception as e:
            LAST = ("cannot be serialized", type(e).__name__, str(e)[:120])
            return False
        if _canon_ssc(sf) != want:
            LAST = ("serializing changed the simfile",)
            return False
        back = SSCSimfile(string=text)
        if _canon_ssc(back) != want:
            LAST = ("differs after the round trip", _canon_ssc(back), want)
            return False
        if str(back) != text:
            LAST = ("second serialization differs",)
            return False
        auto = simfile.loads(text)
        if type(auto) is not SSCSimfile or _canon_ssc(auto) != want:
            LAST = ("auto-detection", type(auto).__name__)
            return False
        return True
    finally:
        xhlib.install_stub()
