"""C20 — asset lookup (engine xh over the model filesystem; unit + logic decomposition)."""
import ast, os
from vlib import xhprop

PROP = "C20"
FILE = "xh_C20.py"
FUNCTIONS = ["simfile.assets.AssetDefinition.matches (regex presets / extension match)", "Assets.__init__", "Assets._asset_property", "Assets._get_case_insensitive_path",
             "Assets._cache_path", "SimfilePack.banner", "FSPath (non-native branch)"]
ASSUMPTIONS = [
    "decomposition (DESIGN C20): (1a) the regular-expression presets of every asset kind are translated to z3 regular expressions (regenerated from the source on every run) and proved equivalent to the documented "
    "contains/startswith/endswith predicate for ALL printable lower-case stems; (1b) matches() as a whole (splitext, lower-casing, extension rule) is executed by CrossHair on names = fragment with one symbolic character before or after it + extension; (2) the lookup logic is decided over model directories of <= 3 entries chosen by symbolic index from 13 representatives and 8 "
    "classes of what the simfile names; glued by a run-time AST check that assets.py touches directory entries only through asset_definition.matches and path joins",
    "filesystem = ModelFS; which of several matching entries is returned is not claimed (any matching entry is accepted)",
]
OUTSIDE = ["the DISC lookup (excluded by the property)", "native filesystem / real PyFilesystem", "names outside the prefix+fragment+suffix family; directories with more than 3 entries"]


def glue_ok():
    src = open(os.path.join(os.environ.get("VERIF_REPO", "/repo"), "simfile", "assets.py")).read()
    tree = ast.parse(src)
    bad = []
    fn = [n for n in ast.walk(tree) if isinstance(n, ast.FunctionDef) and n.name == "_asset_property"]
    if not fn:
        return False, ["_asset_property missing"]
    for node in ast.walk(fn[0]):
        if isinstance(node, ast.Name) and node.id == "file_in_simfile_dir" and isinstance(node.ctx, ast.Load):
            node._seen = False
    class V(ast.NodeVisitor):
        def visit_Call(self, call):
            f = call.func
            name = f.attr if isinstance(f, ast.Attribute) else getattr(f, "id", "")
            for a in call.args:
                if isinstance(a, ast.Name) and a.id == "file_in_simfile_dir":
                    a._seen = True
                    if name not in ("matches", "_cache_path", "join"):
                        bad.append(name)
            self.generic_visit(call)
    V().visit(fn[0])
    for node in ast.walk(fn[0]):
        if isinstance(node, ast.Name) and node.id == "file_in_simfile_dir" and isinstance(node.ctx, ast.Load) and not getattr(node, "_seen", False):
            bad.append("other use at line %d" % node.lineno)
    return not bad, bad


DOCUMENTED = {  # kind -> list of (relation, literal): the documented pattern of each asset kind on the lower-cased stem
    "BANNER": [("contains", "banner"), ("endswith", "bn")],
    "BACKGROUND": [("contains", "background"), ("endswith", "bg")],
    "CDTITLE": [("contains", "cdtitle")],
    "JACKET": [("startswith", "jk_"), ("contains", "jacket"), ("contains", "albumart")],
    "CDIMAGE": [("endswith", "-cd")],
    "MUSIC": [],
}


def _sre_to_z3(pattern):
    """Python regular expression (as used in the presets: literals, ^, $, ., classes) -> (z3 regex, anchored_start, anchored_end)"""
    import z3
    try:
        import re._parser as sre_parse
    except ImportError:
        import sre_parse
    items = list(sre_parse.parse(pattern))
    a0 = bool(items) and str(items[0][0]) == "AT" and str(items[0][1]) in ("AT_BEGINNING", "AT_BEGINNING_STRING")
    a1 = bool(items) and str(items[-1][0]) == "AT" and str(items[-1][1]) in ("AT_END", "AT_END_STRING")
    body = items[(1 if a0 else 0):(len(items) - 1 if a1 else len(items))]
    parts = []
    for op, arg in body:
        name = str(op)
        if name == "LITERAL":
            parts.append(z3.Re(chr(arg)))
        elif name == "ANY":
            parts.append(z3.Range(" ", "~"))
        elif name == "IN":
            alts = []
            for o2, a2 in arg:
                if str(o2) == "LITERAL":
                    alts.append(z3.Re(chr(a2)))
                elif str(o2) == "RANGE":
                    alts.append(z3.Range(chr(a2[0]), chr(a2[1])))
                else:
                    raise ValueError("unsupported class item %s" % o2)
            parts.append(z3.Union(*alts) if len(alts) > 1 else alts[0])
        else:
            raise ValueError("unsupported regular expression construct %s in %r" % (name, pattern))
    r = z3.Concat(*parts) if len(parts) > 1 else (parts[0] if parts else z3.Re(""))
    return r, a0, a1


def ob_presets_z3(kind, budget_s=60):
    """for EVERY printable lower-case stem (no length bound): some preset of the kind matches (re.search) iff the documented
    predicate holds - decided by z3's sequence/regex theory on an encoding regenerated from the presets in the source"""
    import z3, time, sys, os
    if os.environ.get("VERIF_REPO"):
        sys.path.insert(0, os.environ["VERIF_REPO"])
    from simfile.assets import ASSET_DEFINITIONS
    t0 = time.time()
    res = dict(paths=1, checks=0, branches=1, solver_s=0.0, reason="", model=None, info=None)
    d = ASSET_DEFINITIONS[kind]
    s = z3.String("stem")
    sigma = z3.Star(z3.Range(" ", "~"))
    try:
        alts = []
        for p in d.presets:
            r, a0, a1 = _sre_to_z3(p)
            full = r
            if not a0:
                full = z3.Concat(sigma, full)
            if not a1:
                full = z3.Concat(full, sigma)
            alts.append(z3.InRe(s, full))
    except ValueError as e:
        res.update(status="inconclusive", reason=str(e), wall_s=round(time.time() - t0, 2))
        return res
    # both sides as regular languages over the printable alphabet; equivalence = emptiness of the symmetric difference
    empty = z3.Intersect(z3.Re("a"), z3.Re("b"))
    def union(rs):
        return rs[0] if len(rs) == 1 else z3.Union(*rs) if rs else empty
    code_re = []
    for p in d.presets:
        r, a0, a1 = _sre_to_z3(p)
        full = r
        if not a0:
            full = z3.Concat(sigma, full)
        if not a1:
            full = z3.Concat(full, sigma)
        code_re.append(full)
    lit = lambda t: z3.Re(t)
    doc_re = []
    for rname, t in DOCUMENTED[kind]:
        doc_re.append(z3.Concat(sigma, lit(t), sigma) if rname == "contains" else z3.Concat(sigma, lit(t)) if rname == "endswith" else z3.Concat(lit(t), sigma))
    Rc, Rd = union(code_re), union(doc_re)
    code = z3.InRe(s, Rc)
    lower = z3.Star(z3.Union(z3.Range(" ", "@"), z3.Range("[", "~")))   # printable, already lower-cased (no A-Z)
    symdiff = z3.Union(z3.Intersect(Rc, z3.Complement(Rd)), z3.Intersect(Rd, z3.Complement(Rc)))
    sol = z3.Solver(); sol.set("timeout", int(budget_s * 1000))
    sol.add(z3.InRe(s, z3.Intersect(symdiff, lower)))
    r = sol.check(); res["checks"] = 1
    res["solver_s"] = res["wall_s"] = round(time.time() - t0, 3)
    if r == z3.unsat:
        res["status"] = "discharged"; res["twin_sat"] = True
        # reachability witness: both sides are satisfiable / refutable
        w = z3.Solver(); w.add(code if d.presets else z3.Not(code))
        if w.check() != z3.sat:
            res.update(status="inconclusive", reason="vacuous encoding")
    elif r == z3.sat:
        st = sol.model()[s].as_string()
        res.update(status="violated", model={"stem": st}, info="presets %r vs documented %r" % (list(d.presets), DOCUMENTED[kind]))
    else:
        res.update(status="inconclusive", reason="solver unknown")
    return res


def obligations_z3(tier):
    return [dict(name=f"presets_z3[{k}]", func="ob_presets_z3", args=(k,), budget_s=60, bounds="all printable lower-case stems, any length (z3 regex/sequence theory)") for k in DOCUMENTED]


def obligations(tier):
    T = 150 if tier == "quick" else 900
    obs = [dict(name="selftest_strip", func="selftest_strip", file="xhlib.py", timeout=60, bounds="engine self-test")]
    relevant = {0: (0, 1, 10, 9), 1: (2, 3, 9), 2: (4, 9), 3: (5, 6, 7, 9), 4: (8, 11, 9), 5: (9, 0)}
    for kind in range(6):
        for fr in (relevant[kind] if tier == "quick" else range(12)):
            for bf in (False, True):
                obs.append(dict(name=f"match_unit[kind{kind},frag{fr},before={bf}]", func="match_unit", pre=f"kind == {kind} and frag == {fr} and before == {bf}" + (" and ext in (0, 4)" if tier == "quick" else ""), timeout=(3 * T if fr in (2, 7) else 2 * T if bf else T),
                                bounds="one symbolic character (12-letter alphabet incl. upper case, blank, '-', '_') before/after the fragment, 8 extensions (quick: 2)"))
    for n in range(4):
        for spec in range(8):
            if n == 0 and spec in (2, 6):
                continue
            pre = f"n == {n} and spec == {spec}"
            if n == 0:
                pre += " and e0 == 0 and e1 == 1 and e2 == 2"
            elif n == 1:
                pre += " and e1 == (1 if e0 != 1 else 2) and e2 == (3 if e0 != 3 else 4)"
            elif n == 2:
                pre += " and e1 == (12 if e0 != 12 else 11) and e2 == (10 if e0 != 10 else 9)"
                if tier == "quick":
                    pre += f" and e0 % 2 == {spec % 2}"
            else:
                if tier == "quick" and spec not in (0, 2, 4):
                    continue
                pre += " and e1 == (12 if e0 != 12 else 11) and e2 == (8 if e0 != 8 else 7)" + (f" and e0 % 3 == {spec % 3}" if tier == "quick" else "")
            obs.append(dict(name=f"lookup[{n} entries,spec{spec}]", func="lookup", pre=pre, timeout=T,
                            bounds="asset kind symbolic (6); entries by symbolic index from 13 representatives; the simfile names: absent/empty/other-case entry/missing/in sub-directory/in missing sub-directory/exact entry/missing in sub-directory; both formats; directory given as an absolute path or a bare relative name"))
    for kind in range(6):
        obs.append(dict(name=f"lookup_multi[kind{kind}]", func="lookup_multi", pre=f"kind == {kind}", timeout=T,
                        bounds="1..2 entries by symbolic index from 5 names that match the patterns of two asset kinds at once (or none); the simfile names: absent/empty/other-case entry/missing; both formats"))
    obs.append(dict(name="empty_simfile", func="empty_simfile", timeout=T, bounds="explicitly supplied simfile without properties, 6 kinds, with/without a matching entry"))
    for n in range(3):
        obs.append(dict(name=f"pack_banner[{n} inside]", func="pack_banner", pre=f"n == {n}" + (" and i0 == 0 and i1 == 1" if n == 0 else " and i1 == (1 if i0 != 1 else 2)" if n == 1 else ""), timeout=T,
                        bounds="0..2 entries inside the pack from 8 representatives, 7 variants of a file beside the pack"))
    return obs


def signature(ob, res):
    return ob["func"]


def replay(data):
    if data.get("func") == "ob_presets_z3":
        from simfile.assets import ASSET_DEFINITIONS
        kind = data["args"][0]; stem = data["model"]["stem"]
        got = ASSET_DEFINITIONS[kind].matches(stem + ".png")
        exp = any((lit in stem) if r == "contains" else stem.endswith(lit) if r == "endswith" else stem.startswith(lit) for r, lit in DOCUMENTED[kind])
        return got != exp, f"ASSET_DEFINITIONS[{kind!r}].matches({stem + '.png'!r}) = {got}; documented pattern says {exp}"
    from vlib import xh
    return xh.replay("xh_C20", data)


def main(tier):
    ok, bad = glue_ok()
    obs = obligations(tier)
    from vlib import core
    extra = core.run_obligations("harness." + PROP, obligations_z3(tier))
    if not ok:
        print("  glue check failed (assets.py uses a directory entry outside matches/join/_cache_path: %s): the unit+logic composition is not justified" % (bad,))
        extra.append((dict(name="glue[assets.py touches entries only through matches/join]", func="glue", bounds="AST check"),
                      dict(status="inconclusive", reason="directory entry used outside matches/join: %s" % (bad,), paths=0, checks=0, branches=0, solver_s=0.0, wall_s=0.0)))
    return xhprop.main(PROP, tier, FILE, obs, FUNCTIONS, ASSUMPTIONS, OUTSIDE, signature, extra_results=extra,
                       bounds="pattern unit: prefix<=2 + 12 fragments + suffix<=1 + 8 extensions x 6 kinds; lookup: <=3 entries from 13 representatives x 8 specification classes x 6 kinds x {SM,SSC}; pack banner: <=2 inside x 7 beside")
