"""C16 — SM -> SSC conversion keeps every property, chart, timing and note (engine symx)."""
from fractions import Fraction

PROP = "C16"
MODS = ("simfile.convert", "simfile.sm", "simfile.ssc", "simfile.timing", "simfile.notes")
FUNCTIONS = ["simfile.convert.sm_to_ssc", "_convert", "_convert_warps", "_copy_properties", "_should_copy_property", "TimingData.__init__ / BeatValues.from_str (both sides)",
             "NoteData.__iter__ (both sides)", "SSCSimfile.serialize + SSCSimfile(string=...) (real tokenizer, concrete replay of the text)"]
ASSUMPTIONS = [
    "BPM and stop values are symbolic decimals (rendered into the BPMS/STOPS strings as token strings): the sign test of the SM-era warp trick is decided by the solver; beats are symbolic ticks",
    "property values other than timing strings are opaque unique strings that are only moved and compared; which optional keys are present, chart count and templates are solver-guided case splits",
    "the serialization clause uses the real tokenizer on a concrete instance of the result (symbolic numbers replaced by model values)",
]
OUTSIDE = ["more than 2 charts / 2 BPMs / 1 stop", "DELAYS/WARPS lists longer than one event", "a source that spells its stops FREEZES: known finding probed separately"]
SIX = ["STEPSTYPE", "DESCRIPTION", "DIFFICULTY", "METER", "RADARVALUES", "NOTES"]


def _setup():
    from vlib import symx
    return symx, symx.load_shimmed(MODS)


def _timing_strings(symx, T, neg_allowed=True):
    import z3
    kb = symx.fresh_int("kb1", 1, 96000)
    ks = symx.fresh_int("ks0", 0, 96000)
    mb0, mb1, ms0 = symx.fresh_int("mb0"), symx.fresh_int("mb1"), symx.fresh_int("ms0")
    dec = lambda m: symx.DecShim._make(z3.ToReal(m) / 1000, (m, 1000))
    bpms = T.BeatValues([T.BeatValue(T.Beat(0), dec(mb0)), T.BeatValue(T.Beat(symx.SymInt(kb), 48), dec(mb1))])
    stops = T.BeatValues([T.BeatValue(T.Beat(symx.SymInt(ks), 48), dec(ms0))])
    # the sign pattern is split up front (none negative / only the stop / only a BPM / both), so that a counterexample about
    # one kind of negative value names exactly that kind and replays (token strings carry no '-' character of their own)
    sg = symx.choose("sgn", 4)
    symx.CTL.assume((ms0 < 0) if sg in (1, 3) else (ms0 >= 0))
    symx.CTL.assume(z3.Or(mb0 < 0, mb1 < 0) if sg in (2, 3) else z3.And(mb0 >= 0, mb1 >= 0))
    return str(bpms), str(stops), z3.Or(mb0 < 0, mb1 < 0, ms0 < 0)


def ob_convert(tmpl, with_stop, budget_s=300):
    """sm_to_ssc: every source property kept, charts in order, missing properties from template/blank, source and templates
    untouched, nothing shared, TimingData/NoteData identical on both sides; negative BPM/stop -> NotImplementedError"""
    import z3
    symx, mods = _setup()
    C, SM, SSC, T, N = (mods[m] for m in MODS)

    def run():
        bp, stp, anyneg = _timing_strings(symx, T)
        sm = SM.SMSimfile.blank() if symx.choose("base", 2) else SM.SMSimfile(string="")
        sm["TITLE"] = "t!"; sm["OFFSET"] = "-0.125"; sm["BPMS"] = bp
        sm["STOPS"] = stp if with_stop else ""
        if symx.choose("anim", 2):
            if "BGCHANGES" in sm:
                del sm["BGCHANGES"]
            sm["ANIMATIONS"] = "anim!"
        if symx.choose("ssconly", 2):
            sm["WARPS"] = "8.000=1.000"; sm["ORIGIN"] = "o!"; sm["VERSION"] = "0.5"
            sm["LABELS"] = ""; sm["SCROLLS"] = "  "; sm["COMBOS"] = None      # SSC-only lists present but blank / key-only
        if symx.choose("delays", 2):
            sm["DELAYS"] = "2.000=0.250"
        sm["ZZFRESH"] = "z!"
        if symx.choose("keyonly", 2):
            sm["FGCHANGES"] = None      # key-only parameters ("#FGCHANGES;") load as None
            sm["ZZKEYONLY"] = None
            sm["ARTIST"] = None
        nch = symx.choose("ncharts", 3)
        for n in range(nch):
            ch = SM.SMChart.from_msd(["dance-single", "d%d!" % n, "Hard", "9", "0,0", "1000\n0200\n0030\n0004\n,\n000%d\n0000" % n])
            if n == 1:
                ch.extradata = ["x!"]
            sm.charts.append(ch)
        st = ct = None
        if tmpl == 1:
            st = SSC.SSCSimfile(string=""); st["VERSION"] = "0.83"; st["TITLE"] = "template title"; st["GENRE"] = "g!"; st["TICKCOUNTS"] = ""; st["SPEEDS"] = " "
            tc = SSC.SSCChart(); tc["STEPSTYPE"] = "tmpl"; tc["NOTES"] = "0000"; st.charts.append(tc)
            ct = SSC.SSCChart(); ct["CHARTNAME"] = "cn!"; ct["STEPSTYPE"] = "tt"; ct["CREDIT"] = "cc!"; ct["NOTES"] = "9999"
        elif tmpl == 2:
            st = SSC.SSCSimfile(string=""); ct = SSC.SSCChart()
        snap = (list(sm.items()), [(list(c.items()), list(c.extradata or [])) for c in sm.charts],
                None if st is None else (list(st.items()), [list(c.items()) for c in st.charts]), None if ct is None else list(ct.items()))
        try:
            out = C.sm_to_ssc(sm, simfile_template=st, chart_template=ct)
            raised = False
        except NotImplementedError:
            raised = True
        neg = symx.CTL.branch(anyneg if with_stop else z3.Or(z3.Int("mb0") < 0, z3.Int("mb1") < 0))
        if raised != neg:
            return False, ("negative BPM/stop", "raised" if raised else "converted", "negative" if neg else "non-negative")
        if (list(sm.items()), [(list(c.items()), list(c.extradata or [])) for c in sm.charts]) != snap[:2]:
            return False, ("source modified",)
        if st is not None and ((list(st.items()), [list(c.items()) for c in st.charts]) != snap[2] or list(ct.items()) != snap[3]):
            return False, ("template modified",)
        if raised:
            return True, ("refused",)
        if type(out) is not SSC.SSCSimfile:
            return False, ("type",)
        base = dict(st) if st is not None else dict(SSC.SSCSimfile.blank())
        want = dict(base); want.update(dict(sm))
        if dict(out) != want or any(k not in out for k in sm):
            return False, ("properties", sorted(set(dict(out)) ^ set(want)), [k for k in want if k in out and out[k] != want[k]])
        off = len(st.charts) if st is not None else 0
        if len(out.charts) != off + nch:
            return False, ("chart count", len(out.charts))
        cbase = dict(ct) if ct is not None else dict(SSC.SSCChart.blank())
        for n, ch in enumerate(sm.charts):
            oc = out.charts[off + n]
            wantc = dict(cbase); wantc.update(dict(ch))
            if type(oc) is not SSC.SSCChart or dict(oc) != wantc:
                return False, ("chart", n, sorted(set(dict(oc)) ^ set(wantc)))
            if oc is ct or any(oc is x for x in sm.charts) or (off + n and oc is out.charts[0]):
                return False, ("shared chart object",)
            if [x for x in N.NoteData(oc)] != [x for x in N.NoteData(ch)]:
                return False, ("notes differ", n)
        if st is not None and (out is st or out.charts is st.charts or any(a is b for a in out.charts for b in st.charts)):
            return False, ("shared with template",)
        # timing read through the library's own reader is identical on both sides
        ta, tb = T.TimingData(sm), T.TimingData(out)
        conds = []
        for name in ("bpms", "stops", "delays"):
            la, lb = list(getattr(ta, name)), list(getattr(tb, name))
            if len(la) != len(lb):
                return False, ("timing length", name)
            for x, y in zip(la, lb):
                conds.append(symx.bterm(x.beat == y.beat)); conds.append(symx.bterm(x.value == y.value))
        conds.append(symx.bterm(ta.offset == tb.offset))
        if out.charts:
            tc_ = T.TimingData(out, out.charts[-1])
            for x, y in zip(list(tc_.bpms), list(ta.bpms)):
                conds.append(symx.bterm(x.value == y.value))
        if "WARPS" in sm and list(tb.warps) != list(T.BeatValues.from_str(sm["WARPS"])):
            return False, ("warps",)
        if list(ta.warps) != list(tb.warps):     # the library's own reader sees the same warps on both sides
            return False, ("warps read from the source differ from those read from the result", len(list(ta.warps)), len(list(tb.warps)))
        return z3.And(*conds), ("convert", tmpl)
    return symx.explore(run, budget_s=budget_s)


def ob_freezes(budget_s=60):
    """known finding named by the property: a source that spells its stops FREEZES loses them in the SSC result"""
    symx, mods = _setup()
    C, SM, SSC, T, N = (mods[m] for m in MODS)

    def run():
        sm = SM.SMSimfile(string="")
        sm["OFFSET"] = "0"; sm["BPMS"] = "0.000=120.000"; sm["FREEZES"] = "4.000=0.500"
        out = C.sm_to_ssc(sm)
        return list(T.TimingData(out).stops) == list(T.TimingData(sm).stops), ("freezes",)
    return symx.explore(run, budget_s=budget_s)


def ob_loads_back(tmpl, budget_s=120):
    """the result's serialization loads back as an equal SSC simfile (real tokenizer; concrete values)"""
    symx, mods = _setup()

    def run():
        ok, msg = _concrete_loadback({"base": symx.choose("base", 2), "anim": symx.choose("anim", 2), "ssconly": symx.choose("ssconly", 2),
                                      "ncharts": symx.choose("ncharts", 3), "keyonly": symx.choose("keyonly", 2)}, tmpl)
        return ok, (msg,)
    return symx.explore(run, budget_s=budget_s)


def _real_source(g, tmpl, with_stop=True, freezes=False):
    from simfile.sm import SMSimfile, SMChart
    from simfile.ssc import SSCSimfile, SSCChart
    sm = SMSimfile.blank() if g("base") else SMSimfile(string="")
    sm["TITLE"] = "t!"; sm["OFFSET"] = "-0.125"
    sm["BPMS"] = "0.000=%s,\n%.3f=%s" % (Fraction(g("mb0", 120000), 1000).__float__(), float(Fraction(g("kb1", 48), 48)), float(Fraction(g("mb1", 60000), 1000)))
    sm["STOPS"] = ("%.3f=%s" % (float(Fraction(g("ks0", 96), 48)), float(Fraction(g("ms0", 500), 1000)))) if with_stop else ""
    if g("anim"):
        sm.pop("BGCHANGES", None); sm["ANIMATIONS"] = "anim!"
    if g("ssconly"):
        sm["WARPS"] = "8.000=1.000"; sm["ORIGIN"] = "o!"; sm["VERSION"] = "0.5"
        sm["LABELS"] = ""; sm["SCROLLS"] = "  "; sm["COMBOS"] = None
    if g("delays"):
        sm["DELAYS"] = "2.000=0.250"
    sm["ZZFRESH"] = "z!"
    if g("keyonly"):
        sm["FGCHANGES"] = None; sm["ZZKEYONLY"] = None; sm["ARTIST"] = None
    for n in range(g("ncharts")):
        ch = SMChart.from_msd(["dance-single", "d%d!" % n, "Hard", "9", "0,0", "1000\n0200\n0030\n0004\n,\n000%d\n0000" % n])
        if n == 1:
            ch.extradata = ["x!"]
        sm.charts.append(ch)
    st = ct = None
    if tmpl == 1:
        st = SSCSimfile(string=""); st["VERSION"] = "0.83"; st["TITLE"] = "template title"; st["GENRE"] = "g!"; st["TICKCOUNTS"] = ""; st["SPEEDS"] = " "
        tc = SSCChart(); tc["STEPSTYPE"] = "tmpl"; tc["NOTES"] = "0000"; st.charts.append(tc)
        ct = SSCChart(); ct["CHARTNAME"] = "cn!"; ct["STEPSTYPE"] = "tt"; ct["CREDIT"] = "cc!"; ct["NOTES"] = "9999"
    elif tmpl == 2:
        st = SSCSimfile(string=""); ct = SSCChart()
    return sm, st, ct


def _concrete_loadback(vals, tmpl):
    import simfile
    from simfile.convert import sm_to_ssc
    from simfile.ssc import SSCSimfile
    g = lambda k, d=0: vals.get(k, d)
    sm, st, ct = _real_source(g, tmpl)
    out = sm_to_ssc(sm, simfile_template=st, chart_template=ct)
    text = str(out)
    back = SSCSimfile(string=text)
    ok = back == out and list(back.items()) == list(out.items()) and all(list(a.items()) == list(b.items()) for a, b in zip(back.charts, out.charts))
    if tmpl != 2:  # with the VERSION key first the text is auto-detected as SSC
        ok = ok and (list(out.keys())[0] != "VERSION" or type(simfile.loads(text)) is SSCSimfile)
    return ok, "loads back equal" if ok else "loaded %r != converted %r" % (dict(back), dict(out))


def obligations(tier):
    b = 300 if tier == "quick" else 2000
    obs = []
    for tmpl in range(3):
        for ws in (True, False):
            obs.append(dict(name=f"convert[templates={tmpl},stop={ws}]", func="ob_convert", args=(tmpl, ws), budget_s=b,
                            bounds="2 BPMs + optional stop with symbolic ticks and symbolic 3-place decimal values (sign free); blank/empty base, ANIMATIONS alias, SSC-only keys, key-only (None) properties, DELAYS optional; 0..2 charts; templates none / with own charts+properties / empty"))
        obs.append(dict(name=f"loads_back[templates={tmpl}]", func="ob_loads_back", args=(tmpl,), budget_s=b, bounds="concrete timing values; base/alias/SSC-only/chart-count case splits; real tokenizer"))
    obs.append(dict(name="known[FREEZES]", func="ob_freezes", args=(), budget_s=60, bounds="dedicated probe of the known finding"))
    return obs


def signature(ob, res):
    if ob["func"] == "ob_freezes":
        return "known:FREEZES"
    return ob["func"] + ":" + str(res.get("info"))[:60]


def replay(data):
    import simfile
    from simfile.convert import sm_to_ssc
    from simfile.timing import TimingData
    from simfile.notes import NoteData
    from simfile.ssc import SSCSimfile, SSCChart
    m = data["model"] or {}
    g = lambda k, d=0: int(Fraction(m.get(k, str(d))))
    if data["func"] == "ob_freezes":
        from simfile.sm import SMSimfile
        sm = SMSimfile(string=""); sm["OFFSET"] = "0"; sm["BPMS"] = "0.000=120.000"; sm["FREEZES"] = "4.000=0.500"
        out = sm_to_ssc(sm)
        return list(TimingData(out).stops) != list(TimingData(sm).stops), f"stops of the source {TimingData(sm).stops} vs of the SSC result {TimingData(out).stops} (keys {list(out.keys())[-3:]})"
    tmpl = data["args"][0]
    if data["func"] == "ob_loads_back":
        ok, msg = _concrete_loadback({k: g(k) for k in ("base", "anim", "ssconly", "ncharts", "keyonly")}, tmpl)
        return not ok, msg
    ws = data["args"][1]
    sm, st, ct = _real_source(g, tmpl, with_stop=ws)
    snap = (list(sm.items()), [list(c.items()) for c in sm.charts])
    neg = g("mb0", 120000) < 0 or g("mb1", 60000) < 0 or (ws and g("ms0", 500) < 0)
    try:
        out = sm_to_ssc(sm, simfile_template=st, chart_template=ct)
    except NotImplementedError:
        return not neg, "NotImplementedError for non-negative timing %s / %s" % (sm["BPMS"], sm["STOPS"])
    if neg:
        return True, "converted although a BPM/stop is negative: %s / %s" % (sm["BPMS"], sm["STOPS"])
    base = dict(st) if st is not None else dict(SSCSimfile.blank())
    want = dict(base); want.update(dict(sm))
    bad = dict(out) != want or (list(sm.items()), [list(c.items()) for c in sm.charts]) != snap
    off = len(st.charts) if st is not None else 0
    cbase = dict(ct) if ct is not None else dict(SSCChart.blank())
    if len(out.charts) != off + len(sm.charts):
        bad = True
    else:
        for n, ch in enumerate(sm.charts):
            wc = dict(cbase); wc.update(dict(ch))
            oc = out.charts[off + n]
            if dict(oc) != wc or list(NoteData(oc)) != list(NoteData(ch)) or oc is ct:
                bad = True
    ta, tb = TimingData(sm), TimingData(out)
    if (list(ta.bpms), list(ta.stops), list(ta.delays), list(ta.warps), ta.offset) != (list(tb.bpms), list(tb.stops), list(tb.delays), list(tb.warps), tb.offset):
        bad = True
    shared = []
    if st is not None and (out is st or out.charts is st.charts or any(a is b for a in out.charts for b in st.charts)):
        shared.append("result shares an object with the simfile template")
    if any(a is b for a in out.charts for b in sm.charts) or (ct is not None and any(a is ct for a in out.charts)):
        shared.append("result shares a chart object with the source / chart template")
    if shared:
        return True, "; ".join(shared)
    return bad, f"source {dict(sm)} -> result keys {list(out.keys())}; charts {[dict(c) for c in out.charts]}"


def main(tier):
    from vlib import core
    chk = core.Check(PROP, tier, "harness." + PROP, FUNCTIONS,
                     bounds="SM sources with OFFSET/BPMS/STOPS (2 BPMs, <=1 stop, symbolic ticks and signed decimal values), optional DELAYS/ANIMATIONS/SSC-only keys, 0..2 charts (one with extra components), 3 template variants",
                     assumptions=ASSUMPTIONS, outside=OUTSIDE)
    chk.add_results(core.run_obligations("harness." + PROP, obligations(tier)))
    return chk.finish(signature)
