"""C09 — grouping and counting notes follow the documented rules for every stream (engine symx)."""
from fractions import Fraction
from harness import notes_common as nc

PROP = "C09"
MODS = ("simfile.timing", "simfile.notes", "simfile.notes.group", "simfile.notes.count")
FUNCTIONS = ["simfile.notes.group.group_notes (flush, maybe_buffer, flush_until_held_note, attach_tail, join_head_to_tail, join_heads_to_tails_, add_row)",
             "simfile.notes.count.count_grouped_notes / count_steps / count_jumps / count_hands / count_mines / count_holds / count_rolls"]
ASSUMPTIONS = ["beats are arbitrary non-negative reals (exact); single player (player 0)",
               "shim classes stand in for Fraction/int; the reference grouping is a two-pass declarative re-statement of the documentation"]
OUTSIDE = ["more than 4 notes per stream (quick: 3)", "more than 2 columns (a third column adds no new interaction between at most 3-4 notes beyond relabelling)",
           "note types ATTACK/KEYSOUND (treated like any other non-head non-tail type)"]


def _setup():
    from vlib import symx
    return symx, symx.load_shimmed(MODS)


def _opts(G, same, join, ohead, otail, include, N):
    kw = dict(same_beat_notes=G.SameBeatNotes[same], join_heads_to_tails=join,
              orphaned_head=G.OrphanedNotes[ohead], orphaned_tail=G.OrphanedNotes[otail])
    if include is not None:
        kw["include_note_types"] = frozenset(N.NoteType[k] for k in include)
    return kw


def ob_group(n, ncols, kindset, incname, same, join, ohead, otail, shard=None, budget_s=120):
    """list(group_notes(stream, **options)) == reference grouping (or both raise OrphanedNoteException)"""
    symx, mods = _setup()
    G = mods["simfile.notes.group"]; N = mods["simfile.notes"]
    kinds = {3: nc.KINDS3, 5: nc.KINDS5, 6: nc.KINDS6, 7: nc.KINDS7}[kindset]

    def run():
        if shard is not None:      # this obligation covers the streams whose first note has kind number `shard`
            import z3
            symx.CTL.assume(z3.Int("kind0") == shard)
        if incname == "subsets":   # every subset of the kinds of this obligation, by solver-guided case split
            idx = symx.choose("inc", 2 ** len(kinds))
            include = tuple(k for i, k in enumerate(kinds) if (idx >> i) & 1)
        else:
            include = nc.INCLUDE_SETS[incname]
        notes, meta = nc.gen_notes(symx, mods, n, ncols, kinds)
        try:
            out = list(G.group_notes(notes, **_opts(G, same, join, ohead, otail, include, N)))
            raised = False
        except G.OrphanedNoteException:
            raised = True
        st, groups = nc.reference_group(symx, meta, include, same, join, ohead, otail)
        if raised != (st == "raise"):
            return False, ("raise mismatch", raised, st, [(m["kind"], m["col"]) for m in meta])
        if raised:
            return True, ("both raise",)
        ok, info = nc.match_groups(symx, mods, out, groups, notes, meta)
        return ok, (info, [(m["kind"], m["col"]) for m in meta])
    return symx.explore(run, budget_s=budget_s)


COUNTERS = ["steps", "jumps", "hands", "mines", "holds", "rolls", "steps_opts"]
KINDS_OPTS = ["TAP", "HOLD_HEAD", "MINE", "LIFT"]   # the option variants of the step counters (3 columns): two counted kinds, a head, an uncounted kind


def _count_kinds(counter):
    return KINDS_OPTS if counter in ("steps_opts", "jumps_opts", "hands_opts") else nc.KINDS6


def ob_count(n, ncols, counter, variant, budget_s=120):
    """count_* == number of reference groups the documentation describes"""
    symx, mods = _setup()
    G = mods["simfile.notes.group"]; N = mods["simfile.notes"]; C = mods["simfile.notes.count"]

    def run():
        notes, meta = nc.gen_notes(symx, mods, n, ncols, _count_kinds(counter))
        default = nc.INCLUDE_SETS["default"]
        exp_raise = False
        try:
            if counter in ("steps", "jumps", "hands"):
                got = getattr(C, "count_" + counter)(notes)
                st, groups = nc.reference_group(symx, meta, default, "JOIN_ALL", False, "RAISE_EXCEPTION", "RAISE_EXCEPTION")
                exp = sum(1 for g in groups if len(g) >= {"steps": 1, "jumps": 2, "hands": 3}[counter])
            elif counter == "steps_opts":
                same, minimum, incname = variant
                inc = nc.INCLUDE_SETS[incname]
                kw = dict(same_beat_notes=G.SameBeatNotes[same], same_beat_minimum=minimum)
                if inc is not None:
                    kw["include_note_types"] = frozenset(N.NoteType[k] for k in inc)
                else:
                    kw["include_note_types"] = frozenset(N.NoteType)
                got = C.count_steps(notes, **kw)
                st, groups = nc.reference_group(symx, meta, inc, same, False, "RAISE_EXCEPTION", "RAISE_EXCEPTION")
                exp = sum(1 for g in groups if len(g) >= minimum)
            elif counter in ("jumps_opts", "hands_opts"):
                # count_jumps / count_hands with every same-beat mode and an include set (hands also with a minimum)
                same, minimum, incname = variant
                inc = nc.INCLUDE_SETS[incname]
                kw = dict(same_beat_notes=G.SameBeatNotes[same])
                kw["include_note_types"] = frozenset(N.NoteType[k] for k in inc) if inc is not None else frozenset(N.NoteType)
                if counter == "hands_opts":
                    if minimum != 3:
                        kw["same_beat_minimum"] = minimum
                    got = C.count_hands(notes, **kw)
                else:
                    minimum = 2
                    got = C.count_jumps(notes, **kw)
                st, groups = nc.reference_group(symx, meta, inc, same, False, "RAISE_EXCEPTION", "RAISE_EXCEPTION")
                exp = sum(1 for g in groups if len(g) >= minimum)
            elif counter == "mines":
                got = C.count_mines(notes)
                exp = sum(1 for m in meta if m["kind"] == "MINE")
            else:
                ohead, otail = variant
                head = "HOLD_HEAD" if counter == "holds" else "ROLL_HEAD"
                st, groups = nc.reference_group(symx, meta, (head, "TAIL"), "KEEP_SEPARATE", True, ohead, otail)
                exp_raise = st == "raise"
                exp = None if exp_raise else len(groups)
                got = getattr(C, "count_" + counter)(notes, orphaned_head=G.OrphanedNotes[ohead], orphaned_tail=G.OrphanedNotes[otail])
            raised = False
        except G.OrphanedNoteException:
            raised = True
        if raised != exp_raise:
            return False, ("raise mismatch", counter, raised, [(m["kind"], m["col"]) for m in meta])
        if raised:
            return True, ("both raise",)
        return (got == exp), ("count", counter, got, exp, [(m["kind"], m["col"]) for m in meta])
    return symx.explore(run, budget_s=budget_s)


def obligations(tier):
    obs = []
    n, b = (3, 200) if tier == "quick" else (4, 3000)
    ncols = 2
    def add_group(n_, kindset, inc, same, join, oh, ot):
        shards = range(kindset) if n_ >= 5 else (None,)     # five-note streams are split by the first note's kind
        for sh in shards:
            obs.append(dict(name=f"group n={n_} kinds={kindset} include={inc} {same} join={join} head={oh} tail={ot}" + (f" first-kind={sh}" if sh is not None else ""), func="ob_group",
                            args=(n_, ncols, kindset, inc, same, join, oh, ot, sh), budget_s=b,
                            bounds=f"{n_} notes, {ncols} columns, {kindset} note kinds by case split, beats symbolic reals with all tie patterns, keysound symbolic/None"))
    for same in nc.SAME:
        add_group(n, 5, "all", same, False, "RAISE_EXCEPTION", "RAISE_EXCEPTION")
        for oh in nc.POL:
            for ot in nc.POL:
                add_group(n, 5, "all", same, True, oh, ot)
    # include-set family and the wider kind set on a slice of the option space
    for inc in ("default", "holds", "rolls", "notails", "tapmine"):
        add_group(3, 6, inc, "JOIN_BY_NOTE_TYPE", True, "KEEP_ORPHAN", "KEEP_ORPHAN")
        add_group(3, 6, inc, "JOIN_ALL", True, "DROP_ORPHAN", "RAISE_EXCEPTION")
    add_group(2, 7, "all", "JOIN_BY_NOTE_TYPE", True, "KEEP_ORPHAN", "DROP_ORPHAN")
    # every subset of the five kinds as include_note_types (2 notes), for each orphan policy pair; and two more named sets
    for oh in nc.POL:
        for ot in nc.POL:
            add_group(2, 5, "subsets", "KEEP_SEPARATE" if oh == ot else "JOIN_ALL", True, oh, ot)
    add_group(2, 5, "subsets", "JOIN_BY_NOTE_TYPE", False, "RAISE_EXCEPTION", "RAISE_EXCEPTION")
    for inc in ("taptail", "tailmine"):
        add_group(3, 5, inc, "KEEP_SEPARATE", True, "RAISE_EXCEPTION", "RAISE_EXCEPTION")
        add_group(3, 5, inc, "JOIN_ALL", True, "KEEP_ORPHAN", "DROP_ORPHAN")
    # five notes over {TAP, HOLD_HEAD, TAIL}: several holds open at once with earlier notes still buffered behind them
    for oh in nc.POL:
        for ot in (("KEEP_ORPHAN",) if tier == "quick" else nc.POL):
            add_group(5, 3, "all", "KEEP_SEPARATE", True, oh, ot)
    if tier != "quick":
        add_group(5, 3, "all", "JOIN_ALL", True, "DROP_ORPHAN", "DROP_ORPHAN")
    nct = 3
    for c in ("steps", "jumps", "hands", "mines"):
        obs.append(dict(name=f"count_{c} n={nct}", func="ob_count", args=(nct, 3 if c == "hands" else ncols, c, None), budget_s=b, bounds=f"{nct} notes, 6 kinds"))
    for c in ("holds", "rolls"):
        for oh in nc.POL:
            for ot in nc.POL:
                if tier == "quick" and c == "rolls" and oh != ot:
                    continue
                obs.append(dict(name=f"count_{c} n={nct} head={oh} tail={ot}", func="ob_count", args=(nct, ncols, c, (oh, ot)), budget_s=b, bounds=f"{nct} notes, 6 kinds"))
    for same in nc.SAME:
        obs.append(dict(name=f"count_jumps {same} include=default", func="ob_count", args=(3, 3, "jumps_opts", (same, 2, "default")), budget_s=b, bounds="3 notes, 3 columns, 4 kinds (TAP, HOLD_HEAD, MINE, LIFT)"))
        for minimum in ((3,) if tier == "quick" else (2, 3, 4)):
            obs.append(dict(name=f"count_hands {same} min={minimum} include={'all' if minimum == 3 else 'default'}", func="ob_count",
                            args=(3, 3, "hands_opts", (same, minimum, "all" if minimum == 3 else "default")), budget_s=b, bounds="3 notes, 3 columns, 4 kinds (TAP, HOLD_HEAD, MINE, LIFT)"))
    for same in nc.SAME:
        for minimum in (1, 2, 3, 4):
            if tier == "quick" and minimum in (3, 4) and same != "JOIN_ALL":
                continue
            inc = "all" if minimum % 2 else "default"
            obs.append(dict(name=f"count_steps {same} min={minimum} include={inc}", func="ob_count", args=(3, 3, "steps_opts", (same, minimum, inc)), budget_s=b, bounds="3 notes, 3 columns, 4 kinds (TAP, HOLD_HEAD, MINE, LIFT)"))
    return obs


def signature(ob, res):
    return ob["func"] + ":" + str(res.get("info"))[:60]


def replay(data):
    import simfile
    from simfile.notes import NoteType
    from simfile.notes import group as G, count as C
    a = data["args"]; m = data["model"]
    if data["func"] == "ob_group":
        n, ncols, kindset, incname, same, join, oh, ot = a[:8]
        kinds = {3: nc.KINDS3, 5: nc.KINDS5, 6: nc.KINDS6, 7: nc.KINDS7}[kindset]
        include = tuple(k for i, k in enumerate(kinds) if (int(m.get("inc", 0)) >> i) & 1) if incname == "subsets" else nc.INCLUDE_SETS[incname]
        notes = nc.model_notes(m, n, ncols, kinds)
        kw = dict(same_beat_notes=G.SameBeatNotes[same], join_heads_to_tails=join, orphaned_head=G.OrphanedNotes[oh], orphaned_tail=G.OrphanedNotes[ot])
        if include is not None:
            kw["include_note_types"] = frozenset(NoteType[k] for k in include)
        try:
            out = [list(g) for g in G.group_notes(notes, **kw)]
        except G.OrphanedNoteException as e:
            out = "raise"
        st, groups = nc.concrete_reference(notes, include, same, join, oh, ot)
        exp = "raise" if st == "raise" else groups
        return out != exp, f"group_notes({notes}, {kw}) = {out}; documented: {exp}"
    n, ncols, counter, variant = a
    notes = nc.model_notes(m, n, ncols, _count_kinds(counter))
    default = nc.INCLUDE_SETS["default"]
    try:
        if counter in ("steps", "jumps", "hands"):
            got = getattr(C, "count_" + counter)(notes)
            _, groups = nc.concrete_reference(notes, default, "JOIN_ALL", False, "RAISE_EXCEPTION", "RAISE_EXCEPTION")
            exp = sum(1 for g in groups if len(g) >= {"steps": 1, "jumps": 2, "hands": 3}[counter])
        elif counter == "steps_opts":
            same, minimum, incname = variant
            inc = nc.INCLUDE_SETS[incname]
            got = C.count_steps(notes, same_beat_notes=G.SameBeatNotes[same], same_beat_minimum=minimum,
                                include_note_types=frozenset(NoteType[k] for k in inc) if inc else frozenset(NoteType))
            _, groups = nc.concrete_reference(notes, inc, same, False, "RAISE_EXCEPTION", "RAISE_EXCEPTION")
            exp = sum(1 for g in groups if len(g) >= minimum)
        elif counter in ("jumps_opts", "hands_opts"):
            same, minimum, incname = variant
            inc = nc.INCLUDE_SETS[incname]
            kw = dict(same_beat_notes=G.SameBeatNotes[same], include_note_types=frozenset(NoteType[k] for k in inc) if inc else frozenset(NoteType))
            if counter == "hands_opts":
                if minimum != 3:
                    kw["same_beat_minimum"] = minimum
                got = C.count_hands(notes, **kw)
            else:
                minimum = 2
                got = C.count_jumps(notes, **kw)
            _, groups = nc.concrete_reference(notes, inc, same, False, "RAISE_EXCEPTION", "RAISE_EXCEPTION")
            exp = sum(1 for g in groups if len(g) >= minimum)
        elif counter == "mines":
            got = C.count_mines(notes); exp = sum(1 for x in notes if x.note_type is NoteType.MINE)
        else:
            oh, ot = variant
            head = "HOLD_HEAD" if counter == "holds" else "ROLL_HEAD"
            st, groups = nc.concrete_reference(notes, (head, "TAIL"), "KEEP_SEPARATE", True, oh, ot)
            exp = "raise" if st == "raise" else len(groups)
            got = getattr(C, "count_" + counter)(notes, orphaned_head=G.OrphanedNotes[oh], orphaned_tail=G.OrphanedNotes[ot])
    except G.OrphanedNoteException:
        got = "raise"
    return got != exp, f"count_{counter}({notes}, {variant}) = {got}; documented: {exp}"


def main(tier):
    from vlib import core
    chk = core.Check(PROP, tier, "harness." + PROP, FUNCTIONS,
                     bounds={"quick": "streams of 3 notes on 2 columns (hands: 3 columns), 5 note kinds (7 on a slice), plus streams of 5 notes over {TAP, HOLD_HEAD, TAIL} for the three orphaned-head policies, every same-beat mode x join x 3x3 orphan policies, 6 include sets on a slice, same_beat_minimum 1..4",
                             "thorough": "streams of 4 notes on 2 columns, 5 kinds (7 on the include-set slice), same option space"}[tier],
                     assumptions=ASSUMPTIONS, outside=OUTSIDE)
    chk.add_results(core.run_obligations("harness." + PROP, obligations(tier)))
    return chk.finish(signature)
