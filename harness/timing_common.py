"""Shared pieces of the timing harnesses (C11, C12, C13): symbolic TimingData, closed-form oracles,
and an independent exact evaluator used only when replaying a counterexample on the real code."""
import itertools
from fractions import Fraction

TAGS = ["WARP", "WARP_END", "BPM", "DELAY", "DELAY_END", "STOP", "STOP_END"]
DELAY_END, STOP_END = 4, 6


def shapes(max_events, max_kind=2):
    out = []
    for nb, ns, nd, nw in itertools.product(range(max_kind + 1), repeat=4):
        if nb + ns + nd + nw <= max_events:
            out.append((nb, ns, nd, nw))
    return out


# ------------------------------------------------------------------ symbolic side (imports z3 lazily)
def time_unit_den(bpm_values):
    """Dn such that, with all times multiples of 1/Dn s, every half-tick boundary at every BPM of the set is a multiple and
    there are 19 grid points strictly between neighbouring boundaries"""
    import math
    from fractions import Fraction
    B = 1
    for b in bpm_values:
        p = Fraction(str(b)).numerator     # BPM p/q: a half tick lasts 5q/(8p) s, so only the numerators matter
        B = B * p // math.gcd(B, p)
    return 32 * B


def sym_timing(shape, G, sym_bpm=True, bpm_values=None, prefix="", den=None):
    """Declare the symbolic timing data for a shape; returns dict of z3 variables. Preconditions are
    exactly the property's domain: first BPM at beat 0, BPMs in [1,2000], strictly increasing tick-aligned
    non-negative beats within each list, positive lengths."""
    import z3
    from vlib import symx
    S = symx.CTL
    nb, ns, nd, nw = shape
    P = prefix
    V = dict(
        kb=[z3.Int(f"{P}kb{i}") for i in range(nb)], vb=[z3.Real(f"{P}b{i}") for i in range(nb + 1)],
        ks=[z3.Int(f"{P}ks{i}") for i in range(ns)], vs=[z3.Real(f"{P}s{i}") for i in range(ns)],
        kd=[z3.Int(f"{P}kd{i}") for i in range(nd)], vd=[z3.Real(f"{P}d{i}") for i in range(nd)],
        kw=[z3.Int(f"{P}kw{i}") for i in range(nw)], lw=[z3.Int(f"{P}lw{i}") for i in range(nw)],
        off=z3.Real(f"{P}off"),
    )
    if sym_bpm:
        # BPM b_i is supplied as the term 1/ib_i with ib_i in [1/2000, 1]: every b in [1,2000] is covered, and
        # "x / b" becomes the polynomial "x * ib" (symx.inverse_of), which keeps the final query free of division.
        V["ib"] = [z3.Real(f"{P}ib{i}") for i in range(nb + 1)]
        for ib in V["ib"]:
            S.assume(ib >= z3.RealVal("1/2000"), ib <= 1)
        V["vb"] = [symx.reciprocal(ib) for ib in V["ib"]]
    else:
        V["vb"] = [z3.RealVal(c) for c in bpm_values]
    if den is not None:
        # integer form: stop/delay lengths and the offset are integer multiples of 1/den seconds (pure LIA downstream)
        V["den"] = den
        for name in ("vs", "vd"):
            V["n" + name[1]] = []
            for i, v in enumerate(V[name]):
                n = z3.Int(f"{P}n{name[1]}{i}")
                S.assume(n >= 1, n <= 1000 * den)
                V["n" + name[1]].append(n)
                V[name][i] = z3.ToReal(n) / den
        V["noff"] = z3.Int(f"{P}noff")
        S.assume(V["noff"] >= -10000 * den, V["noff"] <= 10000 * den)
        V["off"] = z3.ToReal(V["noff"]) / den
    else:
        for v in V["vs"] + V["vd"]:
            S.assume(v > 0, v <= 1000)
        S.assume(V["off"] >= -10000, V["off"] <= 10000)
    for l in V["lw"]:
        S.assume(l >= 1, l <= G)
    for lst, lo in ((V["kb"], 1), (V["ks"], 0), (V["kd"], 0), (V["kw"], 0)):
        for i, k in enumerate(lst):
            S.assume(k >= lo, k <= G)
            if i:
                S.assume(k > lst[i - 1])
    return V


def build_td(mods, V, extra_bpm=None):
    """TimingData built directly from the symbolic variables (real classes of the shim-loaded modules).
    extra_bpm=(index j, tick term, value term): a BPM change inserted at list position j+1."""
    import z3
    from vlib.symx import SymInt, DecShim
    T = mods["simfile.timing"]
    Beat, BeatValue, BeatValues, TimingData = T.Beat, T.BeatValue, T.BeatValues, T.TimingData
    td = TimingData.__new__(TimingData)
    bp = [BeatValue(Beat(0), DecShim(V["vb"][0]))] + [BeatValue(Beat(SymInt(k), 48), DecShim(v)) for k, v in zip(V["kb"], V["vb"][1:])]
    if extra_bpm is not None:
        j, kx, vx = extra_bpm
        bp.insert(j + 1, BeatValue(Beat(SymInt(kx), 48), DecShim(vx)))
    td.bpms = BeatValues(bp)
    if "den" in V:
        den = V["den"]
        td.stops = BeatValues([BeatValue(Beat(SymInt(k), 48), DecShim._make(v, (n, den))) for k, v, n in zip(V["ks"], V["vs"], V["ns"])])
        td.delays = BeatValues([BeatValue(Beat(SymInt(k), 48), DecShim._make(v, (n, den))) for k, v, n in zip(V["kd"], V["vd"], V["nd"])])
    else:
        td.stops = BeatValues([BeatValue(Beat(SymInt(k), 48), DecShim(v)) for k, v in zip(V["ks"], V["vs"])])
        td.delays = BeatValues([BeatValue(Beat(SymInt(k), 48), DecShim(v)) for k, v in zip(V["kd"], V["vd"])])
    if "wraw" in V:   # warp lengths as concrete decimals (not necessarily tick aligned); V["lw"] is constrained to the nearest tick count
        from fractions import Fraction as _F
        td.warps = BeatValues([BeatValue(Beat(SymInt(k), 48), DecShim._make(_F(w))) for k, w in zip(V["kw"], V["wraw"])])
    else:
        td.warps = BeatValues([BeatValue(Beat(SymInt(k), 48), DecShim._make(z3.ToReal(l) / 48, (l, 48))) for k, l in zip(V["kw"], V["lw"])])
    td.offset = DecShim._make(V["off"], (V["noff"], V["den"])) if "den" in V else DecShim(V["off"])
    return td


# ---- oracle: the documented timeline, written over interval measures with symx numbers -----------------------
# Numbers are vlib.symx.FracShim values (exact rationals carrying, where possible, an integer numerator over a concrete
# denominator so that every comparison is linear integer arithmetic).  Conditionals over tick positions and tags are
# solver-decided case splits (CTL.branch), so the resulting expressions contain no If-terms.


def _b(c):
    """truth value of a condition (SymBool / z3 Bool / bool) as a solver case split"""
    from vlib import symx
    if isinstance(c, bool):
        return c
    return symx.CTL.branch(symx.bterm(c))


def _ite(c, a, b):
    return a if _b(c) else b


def zmin(a, b):
    return a if _b(a <= b) else b


def zmax(a, b):
    return a if _b(a >= b) else b


def num(term, nd=None):
    from vlib import symx
    return symx.FracShim._make(term, nd)


def tick(k):
    """number for tick index k (z3 Int term or python int): k/48 beats"""
    import z3
    from vlib import symx
    if isinstance(k, int):
        return symx.FracShim(k, 48)
    return symx.FracShim._make(z3.ToReal(k) / 48, (k, 48))


def nums(V):
    """number views of the symbolic timing data"""
    from vlib import symx
    den = V.get("den")
    def val(t, n):
        return num(t, (n, den)) if den else num(t)
    return dict(
        stops=[(tick(k), val(v, V["ns"][i] if den else None)) for i, (k, v) in enumerate(zip(V["ks"], V["vs"]))],
        delays=[(tick(k), val(v, V["nd"][i] if den else None)) for i, (k, v) in enumerate(zip(V["kd"], V["vd"]))],
        warps=[(tick(k), tick(k + l)) for k, l in zip(V["kw"], V["lw"])],
        starts=[tick(0)] + [tick(k) for k in V["kb"]],
        off=val(V["off"], V.get("noff")),
    )


def union_measure(iv, warps):
    """|iv ∩ (W1 ∪ ... ∪ Wn)| by inclusion–exclusion"""
    tot = 0
    for r in range(1, len(warps) + 1):
        for sub in itertools.combinations(warps, r):
            lo, hi = iv
            for w in sub:
                lo, hi = zmax(lo, w[0]), zmin(hi, w[1])
            tot = tot + (1 if r % 2 else -1) * zmax(0, hi - lo)
    return tot


def oracle_time(V, kq, tag):
    """Documented timeline at tick kq under tag (python int or z3 Int): a symx number (seconds)."""
    import z3
    from vlib import symx
    N = nums(V)
    q = tick(kq)
    nb = len(V["kb"])
    exp = -N["off"]
    for i in range(nb + 1):
        lo = N["starts"][i]
        hi = N["starts"][i + 1] if i < nb else None
        if i == 0:
            if _b(q < 0):
                L = q
            else:
                seg_hi = zmin(q, hi) if hi is not None else q
                L = seg_hi - union_measure((tick(0), seg_hi), N["warps"])
        else:
            if _b(q > lo):
                seg_hi = zmin(q, hi) if hi is not None else q
                L = (seg_hi - lo) - union_measure((lo, seg_hi), N["warps"])
            else:
                L = 0
        if "ib" in V:
            exp = exp + 60 * L * V["ib"][i]
        else:
            exp = exp + 60 * L / bpm_number(V["vb"][i])
    tg = symx.SymInt(tag) if symx.is_term(tag) else tag
    for p, v in N["stops"]:
        if _b(q > p) or (_b(q == p) and _b(tg >= STOP_END)):
            exp = exp + v
    for p, v in N["delays"]:
        if _b(q > p) or (_b(q == p) and _b(tg >= DELAY_END)):
            exp = exp + v
    return exp


def bpm_number(v):
    """concrete BPM RealVal -> python Fraction (keeps the integer form); symbolic terms stay terms"""
    import z3
    if z3.is_rational_value(v):
        return Fraction(v.numerator_as_long(), v.denominator_as_long())
    return v


def rterm(x):
    """z3 Real term of a symx number / python number"""
    from vlib import symx
    return symx.zr(symx.term_of(x))


def oracle_in_warp(V, kq):
    import z3
    return z3.Or(*[z3.And(kq >= k, kq < k + l) for k, l in zip(V["kw"], V["lw"])]) if V["kw"] else z3.BoolVal(False)


def oracle_hittable(V, kq):
    import z3
    on_pause = z3.Or(*[kq == k for k in V["ks"] + V["kd"]]) if (V["ks"] or V["kd"]) else z3.BoolVal(False)
    return z3.Or(z3.Not(oracle_in_warp(V, kq)), on_pause)


def oracle_bpm(V, kq):
    import z3
    r = V["vb"][0]
    for k, v in zip(V["kb"], V["vb"][1:]):
        r = z3.If(kq >= k, v, r)
    return r


# ------------------------------------------------------------------ concrete side (replay on the real code)
def frac(s):
    return Fraction(s)


def model_timing(model, shape, prefix=""):
    """model: dict name -> str(Fraction). Returns plain dict of exact values."""
    nb, ns, nd, nw = shape
    P = prefix
    g = lambda n, default="0": Fraction(model.get(P + n, default))
    bpm = lambda i: (1 / g(f"ib{i}")) if (P + f"ib{i}") in model else g(f"b{i}", "120")
    den = model.get("__den__")
    if den:
        den = Fraction(den)
        return dict(
            bpms=[(Fraction(0), bpm(0))] + [(g(f"kb{i}") / 48, bpm(i + 1)) for i in range(nb)],
            stops=[(g(f"ks{i}") / 48, g(f"ns{i}", "1") / den) for i in range(ns)],
            delays=[(g(f"kd{i}") / 48, g(f"nd{i}", "1") / den) for i in range(nd)],
            warps=[(g(f"kw{i}") / 48, g(f"lw{i}", "1") / 48) for i in range(nw)],
            off=g("noff") / den,
        )
    return dict(
        bpms=[(Fraction(0), bpm(0))] + [(g(f"kb{i}") / 48, bpm(i + 1)) for i in range(nb)],
        stops=[(g(f"ks{i}") / 48, g(f"s{i}", "1")) for i in range(ns)],
        delays=[(g(f"kd{i}") / 48, g(f"d{i}", "1")) for i in range(nd)],
        warps=[(g(f"kw{i}") / 48, g(f"lw{i}", "1") / 48) for i in range(nw)],
        off=g("off"),
    )


def real_td(c):
    """Real simfile.timing.TimingData from exact values; Decimal values are rounded to 28 digits and the
    exact values actually used are written back into c."""
    from decimal import Decimal
    from simfile.timing import Beat, BeatValue, BeatValues, TimingData

    def dec(f):
        d = Decimal(f.numerator) / Decimal(f.denominator)
        return d

    td = TimingData.__new__(TimingData)
    for name in ("bpms", "stops", "delays", "warps"):
        lst = []
        for i, (b, v) in enumerate(c[name]):
            d = dec(v)
            if name != "warps":
                c[name][i] = (b, Fraction(d))
            lst.append(BeatValue(Beat(b), d))
        setattr(td, name, BeatValues(lst))
    td.offset = dec(c["off"])
    c["off"] = Fraction(td.offset)
    return td


def exact_union(warps):
    iv = sorted((s, s + l) for s, l in warps)
    out = []
    for s, e in iv:
        if out and s <= out[-1][1]:
            out[-1][1] = max(out[-1][1], e)
        else:
            out.append([s, e])
    return out


def exact_time(c, q, tag):
    """independent exact evaluation of the documented timeline (Fractions)"""
    U = exact_union(c["warps"])

    def outside(lo, hi):  # measure of [lo,hi] minus warps
        if hi <= lo:
            return Fraction(0)
        m = hi - lo
        for s, e in U:
            a, b = max(lo, s), min(hi, e)
            if b > a:
                m -= b - a
        return m

    t = -c["off"]
    bp = c["bpms"]
    if q < 0:
        t += 60 * q / bp[0][1]
    else:
        for i, (s, v) in enumerate(bp):
            e = bp[i + 1][0] if i + 1 < len(bp) else None
            hi = q if e is None else min(q, e)
            t += 60 * outside(s, hi) / v
    for p, l in c["stops"]:
        if q > p or (q == p and tag >= STOP_END):
            t += l
    for p, l in c["delays"]:
        if q > p or (q == p and tag >= DELAY_END):
            t += l
    return t


def exact_hittable(c, q):
    inw = any(s <= q < e for s, e in exact_union(c["warps"]))
    return (not inw) or any(q == p for p, _ in c["stops"] + c["delays"])


def exact_bpm(c, q):
    r = c["bpms"][0][1]
    for s, v in c["bpms"]:
        if q >= s:
            r = v
    return r
