"""Shared pieces of the timing harnesses (C11, C12, C13): symbolic TimingData, closed-form oracles,
and an independent exact evaluator used only when replaying a counterexample on the real code."""
import itertools
from fractions import Fraction

TAGS = ["WARP", "WARP_END", "BPM", "DELAY", "DELAY_END", "STOP", "STOP_END"]
DELAY_END, STOP_END = 4, 6


def shapes(max_events, max_kind=2):
    out = []
    for nb, ns, nd, nw in itertools.product(range(max_kind + 1), repeat=4):
        if nb + ns + nd + nw <= max_events:
            out.append((nb, ns, nd, nw))
    return out


# ------------------------------------------------------------------ symbolic side (imports z3 lazily)
def sym_timing(shape, G, sym_bpm=True, bpm_values=None, prefix=""):
    """Declare the symbolic timing data for a shape; returns dict of z3 variables. Preconditions are
    exactly the property's domain: first BPM at beat 0, BPMs in [1,2000], strictly increasing tick-aligned
    non-negative beats within each list, positive lengths."""
    import z3
    from vlib import symx
    S = symx.CTL
    nb, ns, nd, nw = shape
    P = prefix
    V = dict(
        kb=[z3.Int(f"{P}kb{i}") for i in range(nb)], vb=[z3.Real(f"{P}b{i}") for i in range(nb + 1)],
        ks=[z3.Int(f"{P}ks{i}") for i in range(ns)], vs=[z3.Real(f"{P}s{i}") for i in range(ns)],
        kd=[z3.Int(f"{P}kd{i}") for i in range(nd)], vd=[z3.Real(f"{P}d{i}") for i in range(nd)],
        kw=[z3.Int(f"{P}kw{i}") for i in range(nw)], lw=[z3.Int(f"{P}lw{i}") for i in range(nw)],
        off=z3.Real(f"{P}off"),
    )
    if sym_bpm:
        # BPM b_i is supplied as the term 1/ib_i with ib_i in [1/2000, 1]: every b in [1,2000] is covered, and
        # "x / b" becomes the polynomial "x * ib" (symx.inverse_of), which keeps the final query free of division.
        V["ib"] = [z3.Real(f"{P}ib{i}") for i in range(nb + 1)]
        for ib in V["ib"]:
            S.assume(ib >= z3.RealVal("1/2000"), ib <= 1)
        V["vb"] = [symx.reciprocal(ib) for ib in V["ib"]]
    else:
        for v, c in zip(V["vb"], bpm_values):
            S.assume(v == c)
    for v in V["vs"] + V["vd"]:
        S.assume(v > 0, v <= 1000)
    S.assume(V["off"] >= -10000, V["off"] <= 10000)
    for l in V["lw"]:
        S.assume(l >= 1, l <= G)
    for lst, lo in ((V["kb"], 1), (V["ks"], 0), (V["kd"], 0), (V["kw"], 0)):
        for i, k in enumerate(lst):
            S.assume(k >= lo, k <= G)
            if i:
                S.assume(k > lst[i - 1])
    return V


def build_td(mods, V, extra_bpm=None):
    """TimingData built directly from the symbolic variables (real classes of the shim-loaded modules).
    extra_bpm=(index j, tick term, value term): a BPM change inserted at list position j+1."""
    import z3
    from vlib.symx import SymInt, DecShim
    T = mods["simfile.timing"]
    Beat, BeatValue, BeatValues, TimingData = T.Beat, T.BeatValue, T.BeatValues, T.TimingData
    td = TimingData.__new__(TimingData)
    bp = [BeatValue(Beat(0), DecShim(V["vb"][0]))] + [BeatValue(Beat(SymInt(k), 48), DecShim(v)) for k, v in zip(V["kb"], V["vb"][1:])]
    if extra_bpm is not None:
        j, kx, vx = extra_bpm
        bp.insert(j + 1, BeatValue(Beat(SymInt(kx), 48), DecShim(vx)))
    td.bpms = BeatValues(bp)
    td.stops = BeatValues([BeatValue(Beat(SymInt(k), 48), DecShim(v)) for k, v in zip(V["ks"], V["vs"])])
    td.delays = BeatValues([BeatValue(Beat(SymInt(k), 48), DecShim(v)) for k, v in zip(V["kd"], V["vd"])])
    td.warps = BeatValues([BeatValue(Beat(SymInt(k), 48), DecShim._make(z3.ToReal(l) / 48, (l, 48))) for k, l in zip(V["kw"], V["lw"])])
    td.offset = DecShim(V["off"])
    return td


BRANCHING = True  # oracle conditionals are decided as solver case splits (pure LIA path conditions) instead of If-terms


def _ite(c, a, b):
    import z3
    from vlib import symx
    if BRANCHING:
        return a if symx.CTL.branch(c) else b
    return z3.If(c, a, b)


def zmin(a, b):
    return _ite(a <= b, a, b)


def zmax(a, b):
    return _ite(a >= b, a, b)


def union_measure(iv, warps):
    """|iv ∩ (W1 ∪ ... ∪ Wn)| by inclusion–exclusion"""
    tot = 0
    for r in range(1, len(warps) + 1):
        for sub in itertools.combinations(warps, r):
            lo, hi = iv
            for w in sub:
                lo, hi = zmax(lo, w[0]), zmin(hi, w[1])
            tot = tot + (1 if r % 2 else -1) * zmax(0, hi - lo)
    return tot


def oracle_time(V, kq, tag):
    """Documented timeline (seconds, z3 Real) at tick kq under tag (python int or z3 Int).
    Written over interval measures (no state machine).  Its conditionals are over tick positions and
    tags only; with BRANCHING they become solver-decided case splits so that the final query is free of
    If-terms (the If-term form made z3 answer unknown on the non-linear final query)."""
    import z3
    R = lambda k: z3.ToReal(k) / 48
    q = R(kq)
    nb = len(V["kb"])
    warps = [(R(k), R(k + l)) for k, l in zip(V["kw"], V["lw"])]
    starts = [z3.RealVal(0)] + [R(k) for k in V["kb"]]
    exp = -V["off"]
    for i in range(nb + 1):
        lo = starts[i]
        hi = starts[i + 1] if i < nb else None
        if i == 0:
            if _ite(q < 0, True, False) is True:
                L = q
            else:
                seg_hi = zmin(q, hi) if hi is not None else q
                L = seg_hi - union_measure((z3.RealVal(0), seg_hi), warps)
        else:
            if _ite(q > lo, True, False) is True:
                seg_hi = zmin(q, hi) if hi is not None else q
                L = (seg_hi - lo) - union_measure((lo, seg_hi), warps)
            else:
                L = 0
        exp = exp + (60 * L * V["ib"][i] if "ib" in V else 60 * L / V["vb"][i])
    tg = tag if not isinstance(tag, int) else z3.IntVal(tag)
    for k, v in zip(V["ks"], V["vs"]):
        exp = exp + _ite(z3.Or(q > R(k), z3.And(q == R(k), tg >= STOP_END)), v, 0)
    for k, v in zip(V["kd"], V["vd"]):
        exp = exp + _ite(z3.Or(q > R(k), z3.And(q == R(k), tg >= DELAY_END)), v, 0)
    return exp


def oracle_in_warp(V, kq):
    import z3
    return z3.Or(*[z3.And(kq >= k, kq < k + l) for k, l in zip(V["kw"], V["lw"])]) if V["kw"] else z3.BoolVal(False)


def oracle_hittable(V, kq):
    import z3
    on_pause = z3.Or(*[kq == k for k in V["ks"] + V["kd"]]) if (V["ks"] or V["kd"]) else z3.BoolVal(False)
    return z3.Or(z3.Not(oracle_in_warp(V, kq)), on_pause)


def oracle_bpm(V, kq):
    import z3
    r = V["vb"][0]
    for k, v in zip(V["kb"], V["vb"][1:]):
        r = z3.If(kq >= k, v, r)
    return r


# ------------------------------------------------------------------ concrete side (replay on the real code)
def frac(s):
    return Fraction(s)


def model_timing(model, shape, prefix=""):
    """model: dict name -> str(Fraction). Returns plain dict of exact values."""
    nb, ns, nd, nw = shape
    P = prefix
    g = lambda n, default="0": Fraction(model.get(P + n, default))
    bpm = lambda i: (1 / g(f"ib{i}")) if (P + f"ib{i}") in model else g(f"b{i}", "120")
    return dict(
        bpms=[(Fraction(0), bpm(0))] + [(g(f"kb{i}") / 48, bpm(i + 1)) for i in range(nb)],
        stops=[(g(f"ks{i}") / 48, g(f"s{i}", "1")) for i in range(ns)],
        delays=[(g(f"kd{i}") / 48, g(f"d{i}", "1")) for i in range(nd)],
        warps=[(g(f"kw{i}") / 48, g(f"lw{i}", "1") / 48) for i in range(nw)],
        off=g("off"),
    )


def real_td(c):
    """Real simfile.timing.TimingData from exact values; Decimal values are rounded to 28 digits and the
    exact values actually used are written back into c."""
    from decimal import Decimal
    from simfile.timing import Beat, BeatValue, BeatValues, TimingData

    def dec(f):
        d = Decimal(f.numerator) / Decimal(f.denominator)
        return d

    td = TimingData.__new__(TimingData)
    for name in ("bpms", "stops", "delays", "warps"):
        lst = []
        for i, (b, v) in enumerate(c[name]):
            d = dec(v)
            if name != "warps":
                c[name][i] = (b, Fraction(d))
            lst.append(BeatValue(Beat(b), d))
        setattr(td, name, BeatValues(lst))
    td.offset = dec(c["off"])
    c["off"] = Fraction(td.offset)
    return td


def exact_union(warps):
    iv = sorted((s, s + l) for s, l in warps)
    out = []
    for s, e in iv:
        if out and s <= out[-1][1]:
            out[-1][1] = max(out[-1][1], e)
        else:
            out.append([s, e])
    return out


def exact_time(c, q, tag):
    """independent exact evaluation of the documented timeline (Fractions)"""
    U = exact_union(c["warps"])

    def outside(lo, hi):  # measure of [lo,hi] minus warps
        if hi <= lo:
            return Fraction(0)
        m = hi - lo
        for s, e in U:
            a, b = max(lo, s), min(hi, e)
            if b > a:
                m -= b - a
        return m

    t = -c["off"]
    bp = c["bpms"]
    if q < 0:
        t += 60 * q / bp[0][1]
    else:
        for i, (s, v) in enumerate(bp):
            e = bp[i + 1][0] if i + 1 < len(bp) else None
            hi = q if e is None else min(q, e)
            t += 60 * outside(s, hi) / v
    for p, l in c["stops"]:
        if q > p or (q == p and tag >= STOP_END):
            t += l
    for p, l in c["delays"]:
        if q > p or (q == p and tag >= DELAY_END):
            t += l
    return t


def exact_hittable(c, q):
    inw = any(s <= q < e for s, e in exact_union(c["warps"]))
    return (not inw) or any(q == p for p, _ in c["stops"] + c["delays"])


def exact_bpm(c, q):
    r = c["bpms"][0][1]
    for s, v in c["bpms"]:
        if q >= s:
            r = v
    return r
