"""C05 / C06 — open/mutate over the model filesystem: encoding choice, what is written, and fault behaviour (CrossHair harness)."""
import io
import xhlib
from xhlib import L1, L2, L3, L4
from xhlib import ModelFS, REC, record_keep, stream_of_text
import simfile
from simfile import mutate, CancelMutation, open_with_detected_encoding

LAST = None
ENC = ["utf-8", "cp1252", "cp932", "cp949"]
ORDERS = [[0, 1, 2, 3], [1, 0, 2, 3], [3, 2, 1, 0], [2, 0], [1], [0, 3]]
SM_TEXT = "#TITLE:x;\n#ARTIST:y;\n#BPMS:0.000=120.000;\n#NOTES:dance-single:d:Easy:1:0,0:0000\n0000;\n"
SSC_TEXT = "#VERSION:0.83;\n#TITLE:x;\n#ARTIST:y;\n#NOTEDATA:;\n#STEPSTYPE:dance-single;\n#NOTES:0000\n0000;\n"


def detect(d0: bool, d1: bool, d2: bool, d3: bool, order: int, explicit: int, ssc: bool) -> bool:
    """
    pre: 0 <= order < len(ORDERS) and 0 <= explicit <= 4
    post: _
    """
    # explicit == 0: try_encodings order `order` (order 0 = the default list, passed implicitly); else open(encoding=ENC[explicit-1])
    dec = dict(zip(ENC, [d0, d1, d2, d3]))
    name = "a.ssc" if ssc else "a.sm"
    fs = ModelFS({name: SSC_TEXT if ssc else SM_TEXT}, decodes=dec)
    tried = [ENC[i] for i in ORDERS[order]] if explicit == 0 else [ENC[explicit - 1]]
    try:
        if explicit:
            sf = simfile.open(name, filesystem=fs, encoding=ENC[explicit - 1])
            enc = ENC[explicit - 1]
        elif order == 0:
            sf, enc = open_with_detected_encoding(name, filesystem=fs)
        else:
            sf, enc = open_with_detected_encoding(name, try_encodings=tried, filesystem=fs)
    except UnicodeDecodeError:
        return not any(dec[e] for e in tried)
    exp = [e for e in tried if dec[e]]
    if not exp or enc != exp[0]:
        return False
    opens = [l for l in fs.log if l[0] == "open"]
    # every tried encoding up to the first that decodes was used, in order, and nothing was written
    if [l[3] for l in opens] != tried[: tried.index(exp[0]) + 1] or any(l[2] != "r" for l in opens):
        return False
    return sf["TITLE"] == "x" and (type(sf).__name__ == ("SSCSimfile" if ssc else "SMSimfile")) and fs.files == {name: SSC_TEXT if ssc else SM_TEXT}


def _edit(sf, op, v):
    if op == 1:
        sf["TITLE"] = v
    elif op == 2:
        del sf["ARTIST"]
    elif op == 3:
        sf["ZZFRESH"] = v
        sf.subtitle = v
    elif op == 4:
        import copy
        sf.charts.append(copy.deepcopy(sf.charts[0]))
        sf.charts[0].description = v
    elif op == 5:
        sf.charts[0].meter = v          # in-place edit of an existing chart, nothing else touched
    elif op == 6:
        sf.charts.pop()                 # a chart removed
    # op == 0: no edit


def mutate_ok(d0: bool, d1: bool, ssc: bool, has_out: bool, has_bak: bool, clash: int, op: int, v: str) -> bool:
    """
    pre: 0 <= clash <= 2 and 0 <= op <= 4 and len(v) <= L2
    post: _
    """
    global LAST
    name = "a.ssc" if ssc else "a.sm"
    orig = SSC_TEXT if ssc else SM_TEXT
    fs = ModelFS({name: orig, "other.txt": "keep"}, decodes={"utf-8": d0, "cp1252": d1})
    out = ("o.ssc" if ssc else "o.sm") if has_out else None
    bak = [("b.ssc" if ssc else "b.sm"), name, (out or "o.sm")][clash] if has_bak else None
    before = dict(fs.files)
    clashes = has_bak and (bak == name or (has_out and bak == out))
    del REC[:]
    entry_stream = exit_stream = None
    try:
        with mutate(name, output_filename=out, backup_filename=bak, try_encodings=["utf-8", "cp1252"], filesystem=fs) as sf:
            entry_stream, _ = record_keep(sf)
            _edit(sf, op, v)
            exit_stream, _ = record_keep(sf)
    except UnicodeDecodeError:
        return not (d0 or d1) and fs.files == before
    except ValueError:
        return clashes and fs.files == before and not [l for l in fs.log if l[0] == "open" and l[2] == "w"]
    if clashes or not (d0 or d1):
        LAST = ("no error for a name clash / undecodable file",)
        return False
    enc = "utf-8" if d0 else "cp1252"
    writes = [l for l in fs.log if l[0] == "open" and l[2] == "w"]
    if any(l[3] != enc for l in writes):
        LAST = ("written in another encoding", writes, enc)
        return False
    target = out or name
    expected_files = set(before) | {target} | ({bak} if bak else set())
    if set(fs.files) != expected_files or fs.files["other.txt"] != "keep":
        LAST = ("files", sorted(fs.files))
        return False
    if has_out and fs.files[name] != orig:
        LAST = ("input touched although an output name was given",)
        return False
    if stream_of_text(fs.files[target]) != exit_stream:
        LAST = ("output does not denote the simfile at block exit", fs.files[target])
        return False
    if bak and stream_of_text(fs.files[bak]) != entry_stream:
        LAST = ("backup does not denote the simfile at block entry",)
        return False
    # every written file was closed
    return all(n in fs.closed for n in [target] + ([bak] if bak else []))


EDITS = [None, ("TITLE", "new: ti;tle"), ("ARTIST", "é\\\\ü"), ("ZZFRESH", "a//b\nc")]


def noop_second(ssc: bool, e: int, has_out: bool) -> bool:
    """
    pre: 0 <= e < len(EDITS)
    post: _
    """
    # real MSDParameter and tokenizer, concrete values: a no-op mutate on a file mutate has written leaves its text unchanged
    xhlib.install_real()
    try:
        name = "a.ssc" if ssc else "a.sm"
        fs = ModelFS({name: SSC_TEXT if ssc else SM_TEXT}, decodes={"utf-8": True})
        out = "o.dat" if has_out else None
        with mutate(name, output_filename=out, try_encodings=["utf-8"], filesystem=fs) as sf:
            if EDITS[e]:
                sf[EDITS[e][0]] = EDITS[e][1]
            kept = str(sf)
        target = out or name
        first = fs.files[target]
        if has_out:
            fs.files[name] = first   # same content under a name with the right extension
            target = name
        with mutate(target, try_encodings=["utf-8"], filesystem=fs) as sf2:
            pass
        return fs.files[target] == first == kept
    finally:
        xhlib.install_stub()


# ------------------------------------------------------------------ C06
class Boom(Exception):
    pass


def body_raises(which: int, pos: int, has_bak: bool, has_out: bool, ssc: bool) -> bool:
    """
    pre: 0 <= which <= 4 and 0 <= pos <= 2
    post: _
    """
    name = "a.ssc" if ssc else "a.sm"
    fs = ModelFS({name: SSC_TEXT if ssc else SM_TEXT})
    before = dict(fs.files)
    exc = [Boom("b"), KeyboardInterrupt(), SystemExit(3), CancelMutation(), ValueError("v")][which]
    got = None
    try:
        with mutate(name, output_filename="o.sm" if has_out else None, backup_filename="b.sm" if has_bak else None, filesystem=fs) as sf:
            if pos == 0:
                raise exc
            sf["TITLE"] = "z"
            if pos == 1:
                raise exc
            del sf["ARTIST"]
            raise exc
    except Boom as e:
        got = e
    except KeyboardInterrupt as e:
        got = e
    except SystemExit as e:
        got = e
    except CancelMutation as e:
        got = e
    except ValueError as e:
        got = e
    writes = [l for l in fs.log if l[0] == "open" and l[2] != "r"]
    if fs.files != before or writes:
        return False
    if which == 3:
        return got is None  # CancelMutation is swallowed
    return got is exc       # everything else propagates unchanged (the same object)


def clash_refused(which: int, ssc: bool, edit: bool) -> bool:
    """
    pre: 0 <= which <= 2
    post: _
    """
    # a backup name equal to the input name (with or without an output name) or to the output name is refused before anything
    # is written: ValueError, no file created or changed, nothing opened for writing
    name = "a.ssc" if ssc else "a.sm"
    orig = SSC_TEXT if ssc else SM_TEXT
    fs = ModelFS({name: "// a comment the serializer would not write\n" + orig})
    before = dict(fs.files)
    out = [None, "o.sm", "o.sm"][which]
    bak = [name, name, "o.sm"][which]
    try:
        with mutate(name, output_filename=out, backup_filename=bak, filesystem=fs) as sf:
            if edit:
                sf["TITLE"] = "z"
    except ValueError:
        return fs.files == before and not [l for l in fs.log if l[0] == "open" and l[2] != "r"]
    return False


def save_fails(kind: int, ssc: bool, has_bak: bool, has_out: bool) -> bool:
    """
    pre: 0 <= kind <= 3
    post: _
    """
    global LAST
    # kind 0: unserializable property value; 1: SSC chart without note data / SM chart field replaced by a non-string;
    # 2: a character the detected encoding (cp1252) cannot encode; 3: a lone surrogate, which UTF-8 cannot encode
    # (2 and 3: real serializer, concrete value)
    name = "a.ssc" if ssc else "a.sm"
    orig = SSC_TEXT if ssc else SM_TEXT
    if kind >= 2:
        xhlib.install_real()
    try:
        # kind 2: the file decodes only as cp1252 and U+2603 has no cp1252 encoding (the model filesystem refuses it too)
        bad_char = {2: "☃", 3: "\udc80"}.get(kind)
        fs = ModelFS({name: orig}, unencodable=bad_char, decodes={"utf-8": kind != 2, "cp1252": True, "cp932": True, "cp949": True})
        out = "o.sm" if has_out else None
        bak = "b.sm" if has_bak else None
        failed = False
        del REC[:]
        entry_stream = None
        try:
            with mutate(name, output_filename=out, backup_filename=bak, filesystem=fs) as sf:
                if kind < 2:
                    entry_stream, _ = record_keep(sf)
                if kind == 0:
                    sf["TITLE"] = 12345
                elif kind == 1:
                    if ssc:
                        del sf.charts[0]["NOTES"]
                    else:
                        sf.charts.append(None)
                else:
                    sf["TITLE"] = "snow" + bad_char + "man"
        except (AttributeError, KeyError, TypeError, UnicodeEncodeError):
            failed = True
        if not failed:
            LAST = ("saving did not fail",)
            return False
        if fs.files.get(name) != orig:
            LAST = ("input file damaged", fs.files.get(name))
            return False
        if bak and bak in fs.files and bak in fs.closed:
            if kind >= 2:
                if fs.files[bak] != orig and simfile.loads(fs.files[bak]) != simfile.loads(orig):
                    return False
            elif stream_of_text(fs.files[bak]) != entry_stream:
                LAST = ("backup incomplete",)
                return False
        return True
    finally:
        if kind >= 2:
            xhlib.install_stub()


def fs_fault(k: int, ssc: bool, has_bak: bool, has_out: bool, op: int) -> bool:
    """
    pre: 1 <= k <= 14 and 0 <= op <= 6
    post: _
    """
    global LAST
    # the k-th filesystem operation (open / write / close) fails, for every k a fault-free run performs
    name = "a.ssc" if ssc else "a.sm"
    orig = SSC_TEXT if ssc else SM_TEXT
    fs = ModelFS({name: orig}, fail_at=k)
    out = "o.sm" if has_out else None
    bak = "b.sm" if has_bak else None
    del REC[:]
    entry_stream = None
    try:
        with mutate(name, output_filename=out, backup_filename=bak, filesystem=fs) as sf:
            entry_stream, _ = record_keep(sf)
            _edit(sf, op, "z")
    except OSError:
        failed_op = fs.oplog[-1]
        target = out or name
        # a file that cannot be opened for writing: the input still holds its original text
        if failed_op.startswith("open-") and fs.files.get(name) != orig:
            LAST = ("input damaged although only an open() failed", failed_op, fs.files.get(name))
            return False
        # whenever saving fails after the backup was written and closed, the backup is complete
        if bak and bak in fs.closed and not failed_op.endswith(":" + bak):
            if stream_of_text(fs.files[bak]) != entry_stream:
                LAST = ("backup incomplete at", failed_op)
                return False
        # "the original is never lost when a backup was asked for": once the input no longer holds its original text, a
        # complete backup must exist
        if bak and fs.files.get(name) != orig:
            if bak not in fs.closed or stream_of_text(fs.files.get(bak, "")) != entry_stream:
                LAST = ("the input is damaged and there is no complete backup: the original is lost", failed_op, fs.oplog)
                return False
        # the output is only touched after the backup is complete
        if bak and target in fs.write_encoding and bak not in fs.closed:
            LAST = ("output opened before the backup was complete", fs.oplog)
            return False
        return True
    return k > fs.n   # no fault injected: the run performs fewer than k operations


# ------------------------------------------------------------------ byte level: real codecs over representative contents
from xhlib import BytesFS

_U8 = "é日本".encode("utf-8")
BYTE_PAYLOADS = [
    # (bytes put in the TITLE value, bytes appended after the last parameter)
    (b"plain", b""),                                   # 0 ASCII only
    (_U8, b""),                                        # 1 UTF-8 multi-byte text
    (b"Beyonc\xe9 x", b""),                            # 2 CP1252 only (0xE9 inside the text)
    (b"t", b"#ARTIST:Beyonc\xe9"),                     # 3 CP1252 only: 0xE9 is the very last byte (unterminated value)
    ("日本語".encode("cp932"), b""),                    # 4 CP932 text whose bytes are also CP1252-decodable
    ("、あ".encode("cp932"), b""),                      # 5 CP932 text containing 0x81 (undefined in CP1252)
    ("한국어".encode("cp949"), b""),                    # 6 CP949 text
    (b"\x81\xff\x81", b""),                            # 7 decodes under no tried encoding
    (b"t", b"// trailing \xe6\x97"),                   # 8 ends in an incomplete UTF-8 sequence
    (b"t", b"#SUBTITLE:\x93"),                         # 9 ends in a lone CP932/CP949 lead byte
    (b"a\x8d", b""),                                   # 10 0x8D: undefined in CP1252
    (b"a\x0cb\x1cc\x0bd", b""),                         # 11 form feed, FS, VT inside a value (Unicode line boundaries that are not line breaks for a file)
    ("a\u2028b\x85c".encode("utf-8"), b""),              # 12 U+2028 and U+0085 inside a value (UTF-8)
]


def _bytes_content(ci, ssc):
    p, tail = BYTE_PAYLOADS[ci]
    if ssc:
        return b"#VERSION:0.83;\n#TITLE:" + p + b";\n#ARTIST:y;\n#NOTEDATA:;\n#STEPSTYPE:dance-single;\n#METER:1;\n#NOTES:0000\n0000;\n" + tail
    return b"#TITLE:" + p + b";\n#ARTIST:y;\n#BPMS:0.000=120.000;\n#NOTES:dance-single:d:Easy:1:0,0:0000\n0000;\n" + tail


def _first_decoding(data, tried):
    for e in tried:
        try:
            return e, data.decode(e)      # Python's codecs are the trusted base for what "decodes" means
        except UnicodeDecodeError:
            pass
    return None, None


def _reference(text, ssc):
    from msdparser import MSDParserError
    # the reference parse goes through the string= constructor (the file-object route is what is under test here)
    from simfile.sm import SMSimfile
    from simfile.ssc import SSCSimfile
    try:
        return (SSCSimfile if ssc else SMSimfile)(string=text), None
    except MSDParserError as e:
        return None, MSDParserError


def _canon(sf):
    """content of a simfile, with each SSC chart's note data moved last (what a save/load cycle preserves, C02/C04)"""
    charts = []
    for ch in sf.charts:
        items = list(ch.items())
        if type(ch).__name__ == "SSCChart":
            nk = "NOTES" if "NOTES" in ch else "NOTES2"
            items = [kv for kv in items if kv[0] != nk] + [kv for kv in items if kv[0] == nk]
        charts.append((items, list(getattr(ch, "extradata", None) or [])))
    return (type(sf).__name__, list(sf.items()), charts)


def detect_bytes(ci: int, order: int, explicit: int, ssc: bool) -> bool:
    """
    pre: 0 <= ci < len(BYTE_PAYLOADS) and 0 <= order < len(ORDERS) and 0 <= explicit <= 4
    post: _
    """
    global LAST
    from msdparser import MSDParserError
    xhlib.install_real()
    try:
        name = "a.ssc" if ssc else "a.sm"
        data = _bytes_content(ci, ssc)
        fs = BytesFS({name: data})
        tried = [ENC[i] for i in ORDERS[order]] if explicit == 0 else [ENC[explicit - 1]]
        want_enc, text = _first_decoding(data, tried)
        ref, ref_exc = (None, None) if want_enc is None else _reference(text, ssc)
        try:
            if explicit:
                sf, enc = simfile.open(name, filesystem=fs, encoding=ENC[explicit - 1]), ENC[explicit - 1]
            elif order == 0:
                sf, enc = open_with_detected_encoding(name, filesystem=fs)
            else:
                sf, enc = open_with_detected_encoding(name, try_encodings=tried, filesystem=fs)
        except UnicodeDecodeError:
            LAST = ("UnicodeDecodeError although the file decodes as", want_enc)
            return want_enc is None and fs.files == {name: data}
        except MSDParserError:
            return ref_exc is MSDParserError
        if want_enc is None or ref_exc is not None:
            LAST = ("no error", want_enc, ref_exc)
            return False
        if enc != want_enc or sf != ref or type(sf) is not type(ref):
            LAST = ("encoding / content", enc, want_enc)
            return False
        return fs.files == {name: data}
    finally:
        xhlib.install_stub()


def mutate_bytes(ci: int, order: int, has_out: bool, has_bak: bool, op: int, ssc: bool) -> bool:
    """
    pre: 0 <= ci < len(BYTE_PAYLOADS) and 0 <= order < len(ORDERS) and 0 <= op <= 3
    post: _
    """
    global LAST
    import copy
    from msdparser import MSDParserError
    xhlib.install_real()
    try:
        ext = ".ssc" if ssc else ".sm"
        name = "a" + ext
        data = _bytes_content(ci, ssc)
        fs = BytesFS({name: data, "other.txt": b"keep"})
        before = dict(fs.files)
        tried = [ENC[i] for i in ORDERS[order]]
        want_enc, text = _first_decoding(data, tried)
        ref, ref_exc = (None, None) if want_enc is None else _reference(text, ssc)
        out = ("o" + ext) if has_out else None
        bak = ("b" + ext) if has_bak else None
        entry = exit_ = None
        new_title = ["", "new title", "café 日", ""][op]
        try:
            with mutate(name, output_filename=out, backup_filename=bak, try_encodings=tried, filesystem=fs) as sf:
                entry = copy.deepcopy(sf)
                if op in (1, 2):
                    sf.title = new_title
                elif op == 3:
                    sf.charts[0].meter = "13"
                    sf.charts.append(copy.deepcopy(sf.charts[0]))
                exit_ = copy.deepcopy(sf)
        except UnicodeDecodeError:
            LAST = ("UnicodeDecodeError although the file decodes as", want_enc)
            return want_enc is None and fs.files == before
        except MSDParserError:
            return ref_exc is MSDParserError and fs.files == before
        except UnicodeEncodeError:
            # the edited simfile cannot be encoded in the detected encoding: nothing may have been written (C06)
            try:
                str(exit_).encode(want_enc)
                LAST = ("UnicodeEncodeError although the text encodes",)
                return False
            except UnicodeEncodeError:
                return fs.files == before
        if want_enc is None or ref_exc is not None or entry != ref:
            LAST = ("loaded content", want_enc, ref_exc)
            return False
        target = out or name
        if set(fs.files) != set(before) | {target} | ({bak} if bak else set()) or fs.files["other.txt"] != b"keep":
            LAST = ("files", sorted(fs.files))
            return False
        if has_out and fs.files[name] != data:
            LAST = ("input touched although an output name was given",)
            return False
        cls = type(exit_)
        if _canon(cls(string=fs.files[target].decode(want_enc))) != _canon(exit_):
            LAST = ("output decoded with the detected encoding does not parse to the simfile at block exit",)
            return False
        if bak and _canon(cls(string=fs.files[bak].decode(want_enc))) != _canon(entry):
            LAST = ("backup does not parse to the simfile at block entry",)
            return False
        # a no-op mutate on the file just written leaves its bytes unchanged whenever it is again read in the same encoding
        written = fs.files[target]
        again_enc, _ = _first_decoding(written, tried)
        with mutate(target, try_encodings=tried, filesystem=fs) as sf2:
            pass
        if again_enc == want_enc and fs.files[target] != written:
            LAST = ("second no-op mutate changed the bytes",)
            return False
        return True
    finally:
        xhlib.install_stub()
