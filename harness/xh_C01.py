"""C01 — SM simfile: serialize -> parse round trip at parameter level (CrossHair harness, DESIGN 4/C01)."""
from io import StringIO
from typing import List, Optional
import xhlib
from xhlib import L1, L2, L3, L4
from xhlib import REC, StubParam, record, params, gaps_blank, SM_KEYS
from simfile.sm import SMSimfile, SMChart, SM_CHART_PROPERTIES
from simfile.base import BaseSimfile

LAST = None
MULTI = ("ATTACKS", "DISPLAYBPM")
REP_MULTI = ["", "a:b", ":", "a::b:", "x"]
EDIT_KEYS = ["TITLE", "ARTIST", "SUBTITLE", "STOPS", "FREEZES", "BGCHANGES", "ANIMATIONS", "ZZFRESH"]


def _empty():
    return SMSimfile(string="")


def _reparse(stream):
    back = SMSimfile.__new__(SMSimfile)
    SMSimfile.__init__(back)
    back._parse(params(stream))
    return back


def _check_roundtrip(sf) -> bool:
    """the five parameter-level assertions of C01 on an SM simfile object"""
    global LAST
    before = (list(sf.items()), [(list(c.items()), list(c.extradata or [])) for c in sf.charts])
    stream, text, gaps, idxs = record(sf)
    if before != (list(sf.items()), [(list(c.items()), list(c.extradata or [])) for c in sf.charts]):
        LAST = ("serializing changed the simfile",)
        return False
    items = list(sf.items())
    ncharts = len(sf.charts)
    LAST = ("stream", stream, "text", text)
    if idxs != list(range(len(stream))) or not gaps_blank(gaps):
        LAST = ("non-blank text between parameters or marker order", text)
        return False
    if len(stream) != len(items) + ncharts:
        LAST = ("parameter count", len(stream), len(items), ncharts)
        return False
    # (5) multi-value properties are written as separate components; others as (key, value) or key-only
    for (k, v), comp in zip(items, stream):
        if comp[0] != k:
            return False
        if k in MULTI and v is not None:
            if tuple(comp[1:]) != tuple(v.split(":")):
                return False
        elif v is None:
            if len(comp) != 1:
                return False
        elif tuple(comp[1:]) != (v,):
            return False
    # (4) each chart is one NOTES parameter: six fields in the documented order (modulo padding), then extradata
    for ch, comp in zip(sf.charts, stream[len(items):]):
        if comp[0] != "NOTES" or len(comp) < 7:
            return False
        fields = [ch.stepstype, ch.description, ch.difficulty, ch.meter, ch.radarvalues, ch.notes]
        for f, c in zip(fields, comp[1:7]):
            if c.strip() != f:
                return False
        if list(comp[7:]) != list(ch.extradata or []):
            return False
    # (1) strict re-parse gives an equal simfile
    back = _reparse(stream)
    if list(back.items()) != items or len(back.charts) != ncharts or back != sf:
        LAST = ("reparse differs", list(back.items()), items)
        return False
    for a, b in zip(back.charts, sf.charts):
        # same six fields (an SM chart's serialized order is the documented one whatever the order of its mapping) and extras
        if a != b or (a.extradata or []) != (b.extradata or []) or dict(a.items()) != dict(b.items()):
            LAST = ("reparsed chart differs", dict(a.items()), dict(b.items()))
            return False
    # (2) serializing the result again reproduces the text (same stream, same layout)
    stream2, text2, gaps2, _ = record(back)
    if stream2 != stream or text2 != text:
        LAST = ("second serialization differs", text, text2)
        return False
    return True


def props3(k0: int, dup: bool, v0: str, v1: str, v2: str, n0: bool, f: str, has_chart: bool) -> bool:
    """
    pre: 0 <= k0 < len(SM_KEYS)
    pre: SM_KEYS[k0] not in MULTI
    pre: len(v0) <= L3 and len(v1) <= L3 and len(v2) <= L3 and len(f) <= L2 and f == f.strip()
    post: _
    """
    sf = _empty()
    sf[SM_KEYS[k0]] = None if n0 else v0
    sf["ZZFRESH"] = v1
    sf[SM_KEYS[k0] if dup else "CREDIT"] = v2
    if has_chart:
        sf.charts.append(SMChart.from_msd(["dance-single", "", "Easy", "3", "0,0", f, "extra"]))
    return _check_roundtrip(sf)


def multi_value(which: bool, v: str, other: int, none_value: bool) -> bool:
    """
    pre: len(v) <= L3 and 0 <= other < len(REP_MULTI)
    post: _
    """
    sf = _empty()
    sf["TITLE"] = "t"
    sf["ATTACKS" if which else "DISPLAYBPM"] = None if none_value else v
    sf["DISPLAYBPM" if which else "ATTACKS"] = REP_MULTI[other]
    return _check_roundtrip(sf)


def chart_field(i: int, f: str, e0: str, e1: str, nextra: int, two: bool) -> bool:
    """
    pre: 0 <= i < 6 and 0 <= nextra <= 2
    pre: len(f) <= L2 and f == f.strip() and len(e0) <= L2 and len(e1) <= L2
    post: _
    """
    sf = _empty()
    sf["TITLE"] = "t"
    fields = ["dance-single", "desc r", "Hard", "9", "0.1,0.2", "0000\n0000"]
    fields[i] = f
    ch = SMChart.from_msd(fields + [e0, e1][:nextra])
    sf.charts.append(ch)
    if two:
        sf.charts.append(SMChart.blank())
    return _check_roundtrip(sf)


def chart_attr_edit(i: int, f: str) -> bool:
    """
    pre: 0 <= i < 6
    pre: len(f) <= L2 and f == f.strip()
    post: _
    """
    sf = SMSimfile.blank()
    ch = SMChart.blank()
    setattr(ch, SM_CHART_PROPERTIES[i].lower(), f)
    sf.charts.append(ch)
    return _check_roundtrip(sf)


OPS = 15


def edit_step(op: int, k: int, v: str, pre_has: bool, pre_chart: bool, pre_ser: bool) -> bool:
    """
    pre: 0 <= op < OPS and 0 <= k < len(EDIT_KEYS) and len(v) <= L3
    post: _
    """
    # arbitrary small pre-state (which may already have been serialized once: pre_ser), one edit, then the round trip must
    # still hold for the object as it stands now
    sf = _empty()
    sf["TITLE"] = "a"
    if pre_has:
        sf[EDIT_KEYS[k]] = "old"
    sf["ARTIST"] = "b"
    if pre_chart:
        ch0 = SMChart.blank()
        ch0.extradata = ["first", "se:cond"]
        sf.charts.append(ch0)
    if pre_ser:
        record(sf)
    key = EDIT_KEYS[k]
    if op == 0:
        sf[key] = v
    elif op == 1:
        if key in sf:
            del sf[key]
    elif op == 2:
        sf.title = v
    elif op == 3:
        sf.charts.append(SMChart.from_msd(["a", "b", "c", "d", "e", "0000", v]))
    elif op == 4:
        if sf.charts:
            sf.charts.pop()
    elif op == 5:
        sf.charts = [SMChart.from_msd(["a", "b", "c", "d", "e", "1000", v])]
    elif op == 6:
        if sf.charts:
            sf.charts[0].extradata = [v, ""]
    elif op == 7:
        sf.move_to_end("TITLE")
        sf.subtitle = v
    elif op == 8:
        if sf.charts:
            sf.charts[0].description = v.strip()
            sf.charts.reverse()
    elif op == 9:
        if sf.charts:
            sf.charts[0].extradata[0] = v          # extra components edited in place
    elif op == 10:
        if sf.charts:
            sf.charts[0].extradata.append(v)
    elif op == 11:
        if sf.charts:
            del sf.charts[0].extradata[:]
    elif op == 12:
        if sf.charts:
            sf.charts[0]["METER"] = v.strip()      # chart field by key
    elif op == 13:
        if sf.charts:
            sf.charts[0].move_to_end("STEPSTYPE")  # the chart's mapping reordered (no key added or removed)
            sf.charts[0].description = v.strip()
    else:
        ch = SMChart()                             # an empty chart whose six fields are assigned in another order than documented
        ch.notes = "0000"; ch.radarvalues = "0,0"; ch.meter = "7"; ch.difficulty = "Hard"; ch.description = "d x"; ch.stepstype = "dance-single"
        sf.charts.append(ch)
    return _check_roundtrip(sf)


def autodetect(k: int, v: int) -> bool:
    """
    pre: 0 <= k < len(SM_KEYS) and 0 <= v < 3
    pre: SM_KEYS[k] != "VERSION"
    post: _
    """
    # concrete values, real MSDParameter and real tokenizer: the serialized text is auto-detected as SM and loads equal
    xhlib.install_real()
    try:
        sf = _empty()
        sf[SM_KEYS[k]] = ["", "x:y;z", "a\\b//c\nd"][v]
        sf["VERSION"] = "0.83"
        sf.charts.append(SMChart.blank())
        text = str(sf)
        back = simfile_loads(text)
        return type(back) is SMSimfile and back == sf and str(back) == text
    finally:
        xhlib.install_stub()


def simfile_loads(text):
    import simfile
    return simfile.loads(text)


def blank_and_corpus(which: int) -> bool:
    """
    pre: 0 <= which < 2
    post: _
    """
    sf = SMSimfile.blank() if which == 0 else _corpus()
    return _check_roundtrip(sf)


def _corpus():
    import os
    xhlib.install_real()
    try:
        p = os.path.join(xhlib.REPO, "testdata", "nekonabe", "nekonabe.sm")
        if not os.path.exists(p):
            p = os.path.join(xhlib.REPO, "testdata", "blank", "blank.sm")
        with open(p, encoding="utf-8") as f:
            return SMSimfile(file=f)
    finally:
        xhlib.install_stub()


def _in_gap(v):
    """msdparser's escaping gaps excluded by the property: a '#' after a line break (directly or through ':', ';', '\\' only),
    three or more consecutive '/'"""
    n = len(v)
    for i in range(n):
        if v[i] == "#" and i > 0:
            j = i - 1
            while j >= 0 and (v[j] == ":" or v[j] == ";" or v[j] == chr(92)):
                j -= 1
            if j >= 0 and (v[j] == "\n" or v[j] == "\r"):
                return True
        if v[i] == "/" and i + 2 < n and v[i + 1] == "/" and v[i + 2] == "/":
            return True
    return False


def lexer_lemma(v: str, follow: bool) -> bool:
    """
    pre: len(v) <= 2
    pre: not _in_gap(v)
    post: _
    """
    # the dependency contract the StubParam recorder stands for: str(MSDParameter) parses back to the same components
    # (real serializer and real lexer; thorough tier only)
    from msdparser import parse_msd
    text = str(xhlib.RealMSDParameter(("K", v))) + ("\n#N:x;" if follow else "")
    got = [tuple(p.components) for p in parse_msd(string=text)]
    return got == [("K", v)] + ([("N", "x")] if follow else [])
