"""C03 — loading builds exactly the documented object, through every entry point (CrossHair harness; partial, DESIGN 4/C03)."""
import io, os
import xhlib
from xhlib import StubParam, params
from msdparser import MSDParserError
import simfile
from simfile.sm import SMSimfile, SMChart
from simfile.ssc import SSCSimfile, SSCChart

LAST = None
MULTI = ("ATTACKS", "DISPLAYBPM")
PKEYS = ["TITLE", "title", "ATTACKS", "NOTES", "NOTEDATA", "ZZFRESH", "Title", "attacks", "notes", "DISPLAYBPM", "NoteData", "NOTES2", "notes2"]
K2 = 6  # the second symbolic parameter's key is one of the first six spellings
PREFIXES = [
    [],
    [("TITLE", "a")],
    [("title", "b"), ("ARTIST",)],
    [("ATTACKS", "a", "b")],
    [("NOTEDATA", "")],
    [("NOTES", " s ", "d", "\nE\n", "1", "r", " 0000\n", "x1")],
    [("NOTEDATA", ""), ("STEPSTYPE", "q"), ("NOTES", "0000")],
]


def _mk(k, n, c0, c1, c2):
    """parameter shape n: 0 key-only, 1..3 that many components; for NOTES keys: key-only, 5 value components (too few),
    6 components, 7 components (one extra) with one or two symbolic fields.  Explicit branches: a symbolic slice bound or
    list index would create symbolic-length sequences (very slow in CrossHair)."""
    key = PKEYS[k]
    if key.upper() == "NOTES":
        if n == 0:
            return (key,)
        if n == 1:
            return (key, c0, "d", "E", "1", "r")
        if n == 2:
            return (key, " s ", c0, "E", "1", "r", " 0000\n")
        return (key, "s", "d", "E", "1", "r", c0, c1)
    if n == 0:
        return (key,)
    if n == 1:
        return (key, c0)
    if n == 2:
        return (key, c0, c1)
    if key.upper() in MULTI:
        return (key, c0, c1, "z")  # two symbolic strings joined with ':' are the most the engine finishes
    return (key, c0, c1, c2)


# ---- functional specification of the documented rules (independent of the implementation) -----------------
def spec_sm(stream):
    props, order, charts = {}, [], []
    for comp in stream:
        K = comp[0].upper()
        vals = list(comp[1:])
        if K == "NOTES":
            if len(vals) < 6:
                return "ValueError"
            charts.append(([v.strip() for v in vals[:6]], vals[6:]))
            continue
        if K in MULTI and vals:
            v = ":".join(vals)
        else:
            v = vals[0] if vals else None
        if K not in props:
            order.append(K)
        props[K] = v
    return [(k, props[k]) for k in order], charts


def spec_ssc(stream):
    props, order, charts = {}, [], []
    cur = None
    for comp in stream:
        K = comp[0].upper()
        vals = list(comp[1:])
        if K in MULTI and vals:
            v = ":".join(vals)
        else:
            v = vals[0] if vals else None
        if K == "NOTEDATA":
            cur = ({}, [])
            charts.append(cur)
        elif cur is not None:
            if K not in cur[0]:
                cur[1].append(K)
            cur[0][K] = v
        else:
            if K not in props:
                order.append(K)
            props[K] = v
    return [(k, props[k]) for k in order], [[(k, c[0][k]) for k in c[1]] for c in charts]


def rules_sm(pfx: int, k1: int, n1: int, k2: int, n2: int, a: str, b: str, c: str) -> bool:
    """
    pre: 0 <= pfx < len(PREFIXES) and 0 <= k1 < len(PKEYS) and 0 <= k2 < K2 and 0 <= n1 <= 3 and 0 <= n2 <= 3
    pre: len(a) <= 2 and len(b) <= 2 and len(c) <= 2
    post: _
    """
    global LAST
    stream = list(PREFIXES[pfx]) + [_mk(k1, n1, a, b, c), _mk(k2, n2, b, c, a)]
    exp = spec_sm(stream)
    sf = SMSimfile.__new__(SMSimfile)
    SMSimfile.__init__(sf)
    try:
        sf._parse(params(stream))
    except ValueError:
        return exp == "ValueError"
    if exp == "ValueError":
        LAST = ("no ValueError for a short NOTES parameter", stream)
        return False
    items, charts = exp
    if list(sf.items()) != items or len(sf.charts) != len(charts):
        LAST = ("items", list(sf.items()), items)
        return False
    for ch, (fields, extra) in zip(sf.charts, charts):
        if [ch.stepstype, ch.description, ch.difficulty, ch.meter, ch.radarvalues, ch.notes] != fields or (ch.extradata or []) != extra:
            LAST = ("chart", list(ch.items()), fields, extra)
            return False
    return True


def rules_ssc(pfx: int, k1: int, n1: int, k2: int, n2: int, a: str, b: str, c: str) -> bool:
    """
    pre: 0 <= pfx < len(PREFIXES) and 0 <= k1 < len(PKEYS) and 0 <= k2 < K2 and 0 <= n1 <= 3 and 0 <= n2 <= 3
    pre: len(a) <= 2 and len(b) <= 2 and len(c) <= 2
    post: _
    """
    global LAST
    stream = list(PREFIXES[pfx]) + [_mk(k1, n1, a, b, c), _mk(k2, n2, b, c, a)]
    items, charts = spec_ssc(stream)
    sf = SSCSimfile.__new__(SSCSimfile)
    SSCSimfile.__init__(sf)
    sf._parse(params(stream))
    if list(sf.items()) != items or len(sf.charts) != len(charts):
        LAST = ("items", list(sf.items()), items)
        return False
    for ch, citems in zip(sf.charts, charts):
        if list(ch.items()) != citems:
            LAST = ("chart", list(ch.items()), citems)
            return False
    return True


def rules_smchart(n: int, a: str, b: str, c: str, via_str: bool) -> bool:
    """
    pre: 3 <= n <= 8
    pre: len(a) <= 2 and len(b) <= 2 and len(c) <= 2
    pre: (not via_str) or (":" not in a and ":" not in b and ":" not in c)
    post: _
    """
    if via_str:
        vals = [a, " d ", "E", "1", "\tr", " 00\n", "x", "y"][:n]
    else:
        vals = [a, " d ", "E", "1", "\tr", c, "x", b][:n]
    try:
        ch = SMChart.from_str(":".join(vals)) if via_str else SMChart.from_msd(vals)
    except ValueError:
        return n < 6
    if n < 6:
        return False
    return [ch.stepstype, ch.description, ch.difficulty, ch.meter, ch.radarvalues, ch.notes] == [v.strip() for v in vals[:6]] and (ch.extradata or []) == vals[6:]


# ---- entry points, format detection, strictness: concrete text family, symbolic name suffix / configuration ---
TEXTS = [
    # (text, has stray text, stray-free equivalent, first key is VERSION)
    ("#TITLE:a;\n#ARTIST:b;\n", False, None, False),
    ("#VERSION:0.83;\n#TITLE:a;\n#NOTEDATA:;\n#STEPSTYPE:x;\n#NOTES:0000;\n", False, None, True),
    ("#version:0.7;#title:z;", False, None, True),
    ("stray #TITLE:a;", True, "#TITLE:a;", False),
    ("#TITLE:a; junk\n#VERSION:1;", True, "#TITLE:a;\n#VERSION:1;", False),
    ("﻿#VERSION:0.83;#TITLE:q;", False, None, True),
    ("#TITLE:a\n#ARTIST:b;\r\n// c\r\n#NOTES:a:b:c:d:e:0000;", False, None, False),
    ("", False, None, False),
    ("#VERSION:0.83;\n#TITLE:a;x\n", True, "#VERSION:0.83;\n#TITLE:a;\n", True),
]
ENTRY = 6


def _named_file(text, name):
    raw = io.BytesIO(text.encode("utf-8"))
    raw.name = name   # TextIOWrapper.name is the underlying stream's name (a str for opened paths, an int for descriptors)
    return io.TextIOWrapper(raw, encoding="utf-8")


def _load_via(entry, text, strict, name):
    if entry == 0:
        return simfile.loads(text, strict=strict)
    if entry == 1:
        return simfile.load(io.StringIO(text), strict=strict)
    if entry == 2:
        return simfile.load(iter(text.splitlines(keepends=True)), strict=strict)
    if entry == 3:
        return simfile.load(_named_file(text, name), strict=strict)
    if entry == 4:
        return simfile.load(_named_file(text, 7), strict=strict)  # open file object named by a descriptor number
    cls = SSCSimfile if _expect_ssc(text, None) else SMSimfile
    return cls(string=text, strict=strict)


def _expect_ssc(text, name):
    if name is not None:
        low = name.lower()
        if low.endswith(".ssc"):
            return True
        if low.endswith(".sm"):
            return False
    for t in TEXTS:
        if t[0] == text or t[2] == text:
            return t[3]
    raise AssertionError


NAMES = ["song.sm", "song.SSC", "a.Sm", "b.ssc", "song.sm.bak", "song.txt", "sm", "ssc", "x.ssca", ".ssc", "song"]


def name_rule(suffix: str, stem: bool, vfirst: bool) -> bool:
    """
    pre: len(suffix) <= 4
    pre: all(ch in ".sScCmMbakt" for ch in suffix)
    post: _
    """
    # unit obligation: the file-name rule of the format detection for every short suffix, against an independent oracle
    xhlib.install_real()
    try:
        name = ("song" if stem else "") + suffix
        text = "#VERSION:0.83;#TITLE:a;" if vfirst else "#TITLE:a;#VERSION:0.83;"
        got = simfile.load(_named_file(text, name))
        low = name.lower()
        n = len(low)
        if n >= 4 and low[n - 4] == "." and low[n - 3] == "s" and low[n - 2] == "s" and low[n - 1] == "c":
            exp = True
        elif n >= 3 and low[n - 3] == "." and low[n - 2] == "s" and low[n - 1] == "m":
            exp = False
        else:
            exp = vfirst
        return (type(got) is SSCSimfile) == exp and got["TITLE"] == "a" and got["VERSION"] == "0.83"
    finally:
        xhlib.install_stub()


def entrypoints(ti: int, entry: int, strict: bool, ni: int) -> bool:
    """
    pre: 0 <= ti < len(TEXTS) and 0 <= entry < ENTRY and 0 <= ni < len(NAMES)
    post: _
    """
    global LAST
    xhlib.install_real()
    try:
        text, stray, clean, _ = TEXTS[ti]
        name = NAMES[ni]
        uses_name = entry == 3
        exp_ssc = _expect_ssc(text, name if uses_name else None)
        ref_text = clean if stray else text   # the reference is always built from the stray-free text
        try:
            ref = (SSCSimfile if exp_ssc else SMSimfile)(string=ref_text, strict=True)
        except ValueError:
            ref = None  # e.g. an SSC text forced to SM by its name: a one-component NOTES parameter is a ValueError
        try:
            got = _load_via(entry, text, strict, name)
        except MSDParserError:
            LAST = ("MSDParserError", ti, entry, strict)
            return stray and strict
        except ValueError:
            return ref is None and not (stray and strict)
        if stray and strict:
            LAST = ("stray text accepted under strict parsing", ti, entry)
            return False
        if ref is None:
            LAST = ("no ValueError", ti, entry)
            return False
        if type(got) is not type(ref) or got != ref or list(got.items()) != list(ref.items()):
            LAST = ("loaded object differs", type(got).__name__, list(got.items()), type(ref).__name__, list(ref.items()), name)
            return False
        return True
    finally:
        xhlib.install_stub()


def chart_from_str(strict: bool, which: int) -> bool:
    """
    pre: 0 <= which < 3
    post: _
    """
    xhlib.install_real()
    try:
        text = ["#NOTEDATA:;#STEPSTYPE:a;#ATTACKS:x:y;#NOTES:00;#AFTER:z;", "junk #NOTEDATA:;#credit:c;#NOTES2:11;", "#NOTEDATA:;#NOTES:0;"][which]
        stray = which == 1
        try:
            ch = SSCChart.from_str(text, strict=strict)
        except MSDParserError:
            return stray and strict
        if stray and strict:
            return False
        exp = [[("STEPSTYPE", "a"), ("ATTACKS", "x:y"), ("NOTES", "00")], [("credit", "c"), ("NOTES2", "11")], [("NOTES", "0")]][which]
        return list(ch.items()) == exp
    finally:
        xhlib.install_stub()


MSD_ALPHABET = "#:;/\\\n aN"


def chars_sm(text: str, strict: bool) -> bool:
    """
    pre: len(text) <= 3
    pre: all(ch in MSD_ALPHABET for ch in text)
    pre: not (len(text) > 0 and text[len(text) - 1] == chr(92))
    post: _
    """
    # character level, tiny texts: loads() through the real lexer equals the documented rules applied to the tokenizer's
    # own parameter stream (the tokenizer is the trusted base); texts ending in an unpaired backslash are excluded
    from msdparser import parse_msd
    xhlib.install_real()
    try:
        try:
            stream = [tuple(p.components) for p in parse_msd(string=text, ignore_stray_text=not strict)]
            stray = False
        except MSDParserError:
            stream, stray = None, True
        try:
            got = simfile.loads(text, strict=strict)
        except MSDParserError:
            return stray
        except ValueError:
            return (not stray) and spec_sm(stream) == "ValueError"
        if stray:
            return False
        exp = spec_sm(stream)
        if exp == "ValueError":
            return False
        items, charts = exp
        is_ssc = bool(stream) and stream[0][0].upper() == "VERSION"
        if is_ssc:
            return type(got) is SSCSimfile
        return type(got) is SMSimfile and list(got.items()) == items and len(got.charts) == len(charts)
    finally:
        xhlib.install_stub()
