"""Validation of the model filesystem (trusted base of C05/C06/C19/C20): concrete scenarios are run on ModelFS, on a real
in-memory PyFilesystem and on the native filesystem (temp dir) and must give the same observable result.  Concrete, not
symbolic: it validates the environment model the symbolic obligations rely on (like the shim differential for symx)."""
import os, sys, tempfile, shutil


def _scenarios():
    sm = "#TITLE:x;\n#ARTIST:y;\n#BPMS:0.000=120.000;\n#NOTES:dance-single:d:Easy:1:0,0:0000\n0000;\n"
    ssc = "#VERSION:0.83;\n#TITLE:x;\n#NOTEDATA:;\n#STEPSTYPE:dance-single;\n#NOTES:0000\n0000;\n"
    return [("song.sm", sm), ("song.ssc", ssc), ("Song.SSC", ssc), ("notes.txt", sm), (".hidden.sm", sm)]


def _run_mutate(fs, join, d, name, out, bak):
    import simfile
    from simfile import mutate
    kw = {"filesystem": fs} if fs is not None else {}
    res = {}
    try:
        with mutate(join(d, name), output_filename=join(d, out) if out else None, backup_filename=join(d, bak) if bak else None, **kw) as sf:
            sf["TITLE"] = "edited é"
            res["type"] = type(sf).__name__
    except Exception as e:
        res["exc"] = type(e).__name__
    return res


def run_conformance():
    """returns list of mismatch descriptions (empty = the model agrees with both real filesystems)"""
    import warnings
    warnings.filterwarnings("ignore")
    sys.path.insert(0, os.path.dirname(os.path.abspath(__file__)))
    import xhlib
    xhlib.install_real()
    from xhlib import ModelFS
    import fs.memoryfs, fs.path
    import simfile
    from simfile.dir import SimfileDirectory, SimfilePack
    bad = []
    n = 0
    for name, text in _scenarios():
        for out, bak in ((None, None), ("o.sm", None), (None, "b.sm"), ("o.sm", "b.sm"), (None, name)):
            n += 1
            results = {}
            # model
            m = ModelFS({"/d/" + name: text}, dirs={"/d"}, listing={"/d": [name]}, decodes=None)
            r = _run_mutate(m, lambda a, b: a + "/" + b, "/d", name, out, bak)
            results["model"] = (r, {k.split("/")[-1]: v for k, v in m.files.items()})
            # real in-memory PyFilesystem
            mem = fs.memoryfs.MemoryFS(); mem.makedir("/d"); mem.writetext("/d/" + name, text, encoding="utf-8")
            r = _run_mutate(mem, fs.path.join, "/d", name, out, bak)
            results["memoryfs"] = (r, {f: mem.readtext("/d/" + f, encoding="utf-8") for f in mem.listdir("/d")})
            # native
            tmp = tempfile.mkdtemp(prefix="fsconf_")
            try:
                with open(os.path.join(tmp, name), "w", encoding="utf-8", newline="") as f:
                    f.write(text)
                r = _run_mutate(None, os.path.join, tmp, name, out, bak)
                results["native"] = (r, {f: open(os.path.join(tmp, f), encoding="utf-8", newline="").read() for f in os.listdir(tmp)})
            finally:
                shutil.rmtree(tmp, ignore_errors=True)
            if not (results["model"] == results["memoryfs"] == results["native"]):
                bad.append(("mutate", name, out, bak, {k: (v[0], sorted(v[1])) for k, v in results.items()}, results["model"] == results["memoryfs"]))
    # discovery
    tree = {"Pack": {"A": ["a.sm", "bg.png"], "B": ["B.SSC", "b.sm"], "C": ["x.sm.old"], "D": [], "E": [".sm"], "F": [".draft.SSC", "f.sm"], ".G": ["g.sm"]}, "loose.sm": None}
    def build_model():
        files, dirs, listing = {}, {"/r", "/r/Pack"}, {"/r": ["Pack", "loose.sm"], "/r/Pack": list(tree["Pack"])}
        files["/r/loose.sm"] = "#TITLE:l;"
        for dname, fl in tree["Pack"].items():
            dirs.add("/r/Pack/" + dname); listing["/r/Pack/" + dname] = list(fl)
            for f in fl:
                files["/r/Pack/%s/%s" % (dname, f)] = "#TITLE:%s;" % f
        return ModelFS(files, dirs=dirs, listing=listing)
    def observe(fsobj, root, join):
        kw = {"filesystem": fsobj} if fsobj is not None else {}
        sp = SimfilePack(join(root, "Pack"), **kw)
        dirs_ = sorted(os.path.basename(p) for p in sp.simfile_dir_paths)
        opened = sorted((os.path.basename(path), type(sf).__name__, sf["TITLE"]) for sf, path in simfile.openpack(join(root, "Pack"), **kw))
        return dirs_, opened, sp.name
    n += 1
    o_model = observe(build_model(), "/r", lambda a, b: a + "/" + b)
    mem = fs.memoryfs.MemoryFS(); mem.makedirs("/r/Pack"); mem.writetext("/r/loose.sm", "#TITLE:l;")
    for dname, fl in tree["Pack"].items():
        mem.makedir("/r/Pack/" + dname)
        for f in fl:
            mem.writetext("/r/Pack/%s/%s" % (dname, f), "#TITLE:%s;" % f)
    o_mem = observe(mem, "/r", fs.path.join)
    tmp = tempfile.mkdtemp(prefix="fsconf_")
    try:
        os.makedirs(os.path.join(tmp, "Pack"))
        for dname, fl in tree["Pack"].items():
            os.makedirs(os.path.join(tmp, "Pack", dname))
            for f in fl:
                open(os.path.join(tmp, "Pack", dname, f), "w").write("#TITLE:%s;" % f)
        o_nat = observe(None, tmp, os.path.join)
    finally:
        shutil.rmtree(tmp, ignore_errors=True)
    if not (o_model == o_mem == o_nat):
        bad.append(("discovery", o_model, o_mem, o_nat, o_model == o_mem))
    xhlib.install_stub()
    return n, bad


def ob_fs_conformance(budget_s=120):
    n, bad = run_conformance()
    r = dict(paths=n, checks=0, branches=n, solver_s=0.0, wall_s=0.0, info=None, model=None)
    native_only = [b for b in bad if b[-1]]      # the model and the real in-memory PyFilesystem agree, the native filesystem deviates
    if bad and len(native_only) == len(bad):
        # not a fault of the model: the repository's native filesystem layer behaves differently from a PyFilesystem, which the
        # properties rule out ("on the native filesystem and on any PyFilesystem")
        r.update(status="violated", cex={"scenario": str(native_only[0][:4])[:300]}, info="native filesystem deviates from MemoryFS (and from the model) on %d of %d scenarios: %s" % (len(native_only), n, str(native_only[0])[:300]))
    elif bad:
        r.update(status="inconclusive", reason="the model filesystem disagrees with a real filesystem on %d of %d concrete scenarios: %s" % (len(bad), n, str(bad[0])[:400]), harness_error=True, fatal=True)
    else:
        r.update(status="discharged", reason="%d concrete scenarios agree on ModelFS, MemoryFS and the native filesystem" % n)
    return r


def replay(data):
    """(reproduced, message): re-run the scenarios; reproduced iff the native filesystem still deviates from MemoryFS and the model"""
    n, bad = run_conformance()
    native_only = [b for b in bad if b[-1]]
    return bool(native_only), ("native filesystem deviates: %s" % str(native_only[0])[:600]) if native_only else "all %d scenarios agree" % n


if __name__ == "__main__":
    print(run_conformance())
