"""C11 — beat -> time equals the exact timeline for all event interleavings (engine symx)."""
import os, sys
from fractions import Fraction
from harness import timing_common as tc

PROP = "C11"
MODS = ("simfile.timing", "simfile.timing.engine")
FUNCTIONS = ["simfile.timing.engine.TimingEngine.__init__", "TimingEngine._coalesce_warps", "TimingEngine._retime_events",
             "TimingEngine.time_at", "TimingEngine.bpm_at", "TimingStateMachine.advance", "TimingState.time_until",
             "TaggedEvent.__lt__", "simfile.timing.Beat (arithmetic, round_to_tick)"]
ASSUMPTIONS = [
    "floats are modelled as exact reals (DESIGN 2.3); the IEEE rounding lemma |double - real| <= 1e-9 s for <= 16 events and |t| <= 1e5 s is an assumption, not discharged",
    "shim classes (FracShim/FloatShim/DecShim/SymInt) stand in for Fraction/float/Decimal/int; validated by the concrete differential run and by replay",
    "TimingData is constructed directly (string parsing of BPMS/STOPS is C14's subject)",
]
OUTSIDE = ["IEEE rounding", "more events than the shape bound", "event/query positions beyond the tick grid G", "negative BPMs/stops (excluded by the property)"]


def _setup():
    from vlib import symx
    symx.FLOAT_FAITHFUL = False      # worker processes are reused: only the *_floats obligations switch it on (after this call)
    mods = symx.load_shimmed(MODS)
    return symx, mods


def _engine(mods, td):
    return mods["simfile.timing.engine"].TimingEngine(td)


def ob_time_at(shape, G, tag, budget_s=120):
    """time_at(q, tag) == closed-form oracle, all positions/lengths/BPMs/offset/query symbolic"""
    import z3
    symx, mods = _setup()
    E = mods["simfile.timing.engine"]
    Beat = mods["simfile.timing"].Beat

    def run():
        V = tc.sym_timing(shape, G)
        kq = symx.fresh_int("kq", -G, 3 * G)
        if tag is None:
            tg = symx.fresh_int("tag", 0, 6)
            tagv = symx.SymInt(tg)
        else:
            tg, tagv = tag, E.EventTag(tag)
        eng = _engine(mods, tc.build_td(mods, V))
        got = eng.time_at(Beat(symx.SymInt(kq), 48), tagv)
        exp = tc.rterm(tc.oracle_time(V, kq, tg))
        if symx.poly_identity(got._v, exp):
            return True, ("time_at", shape, "identical polynomials")
        return symx.zr(got._v) == exp, ("time_at", shape)
    return symx.explore(run, budget_s=budget_s)


def ob_history(shape, G, narrow=False, budget_s=120):
    """a lookup's answer does not depend on the lookups made before on the same engine: after one arbitrary earlier query
    (time_at with any beat and tag, bpm_at or hittable), time_at(q, tag) still equals the closed-form oracle"""
    import z3
    symx, mods = _setup()
    E = mods["simfile.timing.engine"]
    Beat = mods["simfile.timing"].Beat

    def run():
        V = tc.sym_timing(shape, G)
        k0 = symx.fresh_int("k0", -G, 3 * G); t0 = symx.fresh_int("tag0", 0, 6)
        kq = symx.fresh_int("kq", -G, 3 * G); tg = symx.fresh_int("tag", 0, 6)
        if narrow:   # larger shapes: the earlier query ends a pause (or not), the measured one is asked with WARP or the default tag
            symx.CTL.assume(z3.Or(t0 == 5, t0 == 6), z3.Or(tg == 0, tg == 5))
        eng = _engine(mods, tc.build_td(mods, V))
        prev = symx.choose("prev", 3)
        if prev == 0:
            eng.time_at(Beat(symx.SymInt(k0), 48), symx.SymInt(t0))
        elif prev == 1:
            eng.bpm_at(Beat(symx.SymInt(k0), 48))
        else:
            eng.hittable(Beat(symx.SymInt(k0), 48))
        got = eng.time_at(Beat(symx.SymInt(kq), 48), symx.SymInt(tg))
        exp = tc.rterm(tc.oracle_time(V, kq, tg))
        if symx.poly_identity(got._v, exp):
            return True, ("history", shape, "identical polynomials")
        return symx.zr(got._v) == exp, ("history", shape)
    return symx.explore(run, budget_s=budget_s)


def ob_monotone(shape, G, budget_s=120):
    """(q1,tag1) <= (q2,tag2) lexicographically  =>  time_at(q1,tag1) <= time_at(q2,tag2)"""
    import z3
    symx, mods = _setup()
    Beat = mods["simfile.timing"].Beat

    def run():
        V = tc.sym_timing(shape, G)
        k1 = symx.fresh_int("kq", -G, 3 * G); k2 = symx.fresh_int("kq2", -G, 3 * G)
        t1 = symx.fresh_int("tag", 0, 6); t2 = symx.fresh_int("tag2", 0, 6)
        symx.CTL.assume(z3.Or(k1 < k2, z3.And(k1 == k2, t1 <= t2)))
        eng = _engine(mods, tc.build_td(mods, V))
        a = eng.time_at(Beat(symx.SymInt(k1), 48), symx.SymInt(t1))
        b = eng.time_at(Beat(symx.SymInt(k2), 48), symx.SymInt(t2))
        return symx.zr(a._v) <= symx.zr(b._v), ("monotone", shape)
    return symx.explore(run, budget_s=budget_s)


def ob_offset(shape, G, budget_s=120):
    """changing the offset by d changes every time by -d (engine run twice)"""
    import z3
    symx, mods = _setup()
    Beat = mods["simfile.timing"].Beat

    def run():
        V = tc.sym_timing(shape, G)
        d = symx.fresh_real("dd", -10000, 10000)
        kq = symx.fresh_int("kq", -G, 3 * G); tg = symx.fresh_int("tag", 0, 6)
        e1 = _engine(mods, tc.build_td(mods, V))
        V2 = dict(V); V2["off"] = V["off"] + d
        e2 = _engine(mods, tc.build_td(mods, V2))
        q = Beat(symx.SymInt(kq), 48)
        a = e1.time_at(q, symx.SymInt(tg)); b = e2.time_at(q, symx.SymInt(tg))
        return symx.zr(b._v) == symx.zr(a._v) - d, ("offset", shape)
    return symx.explore(run, budget_s=budget_s)


def ob_redundant_bpm(shape, G, budget_s=120):
    """inserting a BPM change that repeats the BPM in force changes no time_at / bpm_at answer"""
    import z3
    symx, mods = _setup()
    Beat = mods["simfile.timing"].Beat

    def run():
        V = tc.sym_timing(shape, G)
        nb = shape[0]
        kx = symx.fresh_int("kx", 1, G)
        j = symx.choose("jx", nb + 1)  # list position of the inserted change: after j existing changes
        if j > 0:
            symx.CTL.assume(kx > V["kb"][j - 1])
        if j < nb:
            symx.CTL.assume(kx < V["kb"][j])
        symx.require_feasible()
        kq = symx.fresh_int("kq", -G, 3 * G); tg = symx.fresh_int("tag", 0, 6)
        e1 = _engine(mods, tc.build_td(mods, V))
        e2 = _engine(mods, tc.build_td(mods, V, extra_bpm=(j, kx, V["vb"][j])))
        q = Beat(symx.SymInt(kq), 48)
        a = e1.time_at(q, symx.SymInt(tg)); b = e2.time_at(q, symx.SymInt(tg))
        ba = e1.bpm_at(q); bb = e2.bpm_at(q)
        return z3.And(symx.zr(a._v) == symx.zr(b._v), symx.zr(ba._v) == symx.zr(bb._v)), ("redundant", shape, j)
    return symx.explore(run, budget_s=budget_s)


def ob_bpm_at(shape, G, budget_s=120):
    """bpm_at(q) == value of the last BPM change at or before q (first BPM before beat 0)"""
    symx, mods = _setup()
    Beat = mods["simfile.timing"].Beat

    def run():
        V = tc.sym_timing(shape, G)
        kq = symx.fresh_int("kq", -G, 3 * G)
        eng = _engine(mods, tc.build_td(mods, V))
        got = eng.bpm_at(Beat(symx.SymInt(kq), 48))
        return symx.zr(got._v) == tc.oracle_bpm(V, kq), ("bpm_at", shape)
    return symx.explore(run, budget_s=budget_s)


def ob_bpm_at_floats(shape, G, budget_s=120):
    """bpm_at(q) with IEEE-faithful floats: BPM values, pause lengths and offset concrete, positions symbolic but pinned wherever the
    code converts a beat to a double (1/3 is not a double); see C13 hittable_floats"""
    import z3
    symx, mods = _setup()
    symx.FLOAT_FAITHFUL = True
    Beat = mods["simfile.timing"].Beat

    def run():
        bpms = (120, 7, 90)[: shape[0] + 1]
        den = tc.time_unit_den(bpms)
        V = tc.sym_timing(shape, G, sym_bpm=False, bpm_values=bpms, den=den)
        for n in V.get("ns", []) + V.get("nd", []):
            symx.CTL.assume(n == den // 4)
        symx.CTL.assume(V["noff"] == 0)
        kq = symx.fresh_int("kq", 0, 2 * G)
        eng = _engine(mods, tc.build_td(mods, V))
        got = eng.bpm_at(Beat(symx.SymInt(kq), 48))
        return symx.zr(symx.term_of(got)) == tc.oracle_bpm(V, kq), ("bpm_at_floats", shape)
    return symx.explore(run, budget_s=budget_s)


def obligations(tier):
    obs = []
    if tier == "quick":
        G, shp, b = 12, tc.shapes(3), 150
        for s in shp:
            obs.append(dict(name=f"time_at{s}/G{G}/alltags", func="ob_time_at", args=(s, G, None), budget_s=b,
                            bounds=f"shape(nbpm+1,stops,delays,warps)={s}, ticks 0..{G}, query tick -{G}..{3*G}, tag 0..6 symbolic, BPM in [1,2000], lengths>0"))
        for s in tc.shapes(2):
            obs.append(dict(name=f"monotone{s}/G{G}", func="ob_monotone", args=(s, G), budget_s=b, bounds=f"shape {s}, two symbolic queries"))
        for s in [x for x in tc.shapes(2) if x[0] >= 0]:
            obs.append(dict(name=f"offset{s}/G{G}", func="ob_offset", args=(s, G), budget_s=b, bounds=f"shape {s}, shift d in [-1e4,1e4]"))
            obs.append(dict(name=f"redundant_bpm{s}/G{G}", func="ob_redundant_bpm", args=(s, G), budget_s=b, bounds=f"shape {s}, inserted change at symbolic tick 1..{G}"))
        for s in tc.shapes(3):
            if s[0] >= 1:
                obs.append(dict(name=f"bpm_at{s}/G{G}", func="ob_bpm_at", args=(s, G), budget_s=b, bounds=f"shape {s}"))
        for s, g in (((1, 0, 0, 0), 8), ((2, 0, 0, 0), 6), ((1, 0, 0, 1), 5)):
            obs.append(dict(name=f"bpm_at_floats{s}/G{g}", func="ob_bpm_at_floats", args=(s, g), budget_s=b,
                            bounds=f"shape {s}, ticks 0..{g}, IEEE-faithful floats: positions pinned wherever the code converts a beat to a double; BPM values 120/7/90 concrete"))
        for s, g, nr in [((0, 1, 0, 0), 6, False), ((0, 0, 1, 0), 6, False), ((0, 1, 0, 1), 4, True), ((0, 1, 1, 0), 3, True)]:
            obs.append(dict(name=f"history{s}/G{g}" + ("/narrow-tags" if nr else ""), func="ob_history", args=(s, g, nr), budget_s=b,
                            bounds=f"shape {s}, ticks 0..{g}: one arbitrary earlier query (time_at any beat/tag, bpm_at, hittable) on the same engine, then time_at(q, tag) against the oracle"))
        # three warps (nested / overlapping / touching in every arrangement) need a third of a kind
        for s, g in (((0, 0, 0, 3), 8), ((0, 1, 0, 3), 3)):
            obs.append(dict(name=f"time_at{s}/G{g}/alltags", func="ob_time_at", args=(s, g, None), budget_s=b, bounds=f"shape {s}: three warps, ticks 0..{g}"))
        obs.append(dict(name="monotone(0, 0, 0, 3)/G6", func="ob_monotone", args=((0, 0, 0, 3), 6), budget_s=b, bounds="three warps, two symbolic queries"))
    else:
        G, b = 48, 1500
        for s in tc.shapes(4):
            if sum(s) <= 3:
                obs.append(dict(name=f"time_at{s}/G{G}/alltags", func="ob_time_at", args=(s, G, None), budget_s=b, bounds=f"shape {s}, ticks 0..{G}, tag symbolic"))
            else:
                for t in range(7):
                    obs.append(dict(name=f"time_at{s}/G{G}/tag{t}", func="ob_time_at", args=(s, G, t), budget_s=b, bounds=f"shape {s}, ticks 0..{G}, tag {tc.TAGS[t]}"))
        for s in tc.shapes(3):
            obs.append(dict(name=f"monotone{s}/G{G}", func="ob_monotone", args=(s, G), budget_s=b, bounds=f"shape {s}"))
            obs.append(dict(name=f"offset{s}/G{G}", func="ob_offset", args=(s, G), budget_s=b, bounds=f"shape {s}"))
            obs.append(dict(name=f"redundant_bpm{s}/G{G}", func="ob_redundant_bpm", args=(s, G), budget_s=b, bounds=f"shape {s}"))
        for s in tc.shapes(4):
            if s[0] >= 1:
                obs.append(dict(name=f"bpm_at{s}/G{G}", func="ob_bpm_at", args=(s, G), budget_s=b, bounds=f"shape {s}"))
        for s in tc.shapes(2):
            obs.append(dict(name=f"history{s}/G12", func="ob_history", args=(s, 12), budget_s=b, bounds=f"shape {s}, ticks 0..12: one arbitrary earlier query on the same engine"))
        for s, g in (((0, 0, 0, 3), 24), ((0, 1, 0, 3), 12), ((1, 0, 0, 3), 12), ((0, 0, 1, 3), 12)):
            obs.append(dict(name=f"time_at{s}/G{g}/alltags", func="ob_time_at", args=(s, g, None), budget_s=b, bounds=f"shape {s}: three warps, ticks 0..{g}"))
        obs.append(dict(name="monotone(0, 0, 0, 3)/G12", func="ob_monotone", args=((0, 0, 0, 3), 12), budget_s=b, bounds="three warps"))
        # positions unbounded above (G only bounds distances): one family with a huge grid
        for s in [(1, 1, 0, 1), (0, 1, 1, 1), (0, 0, 0, 2), (1, 0, 0, 2)]:
            obs.append(dict(name=f"time_at{s}/G100000/alltags", func="ob_time_at", args=(s, 100000, None), budget_s=b, bounds=f"shape {s}, ticks 0..100000"))
    return obs


def signature(ob, res):
    return ob["func"] + ":" + str(tuple(ob["args"][0]))


# ------------------------------------------------------------------ replay on the real code
def replay(data):
    import simfile  # real, unshimmed
    from simfile.timing import Beat
    from simfile.timing.engine import TimingEngine, EventTag
    m = data["model"]
    shape = tuple(data["args"][0])
    func = data["func"]
    g = lambda n, dflt="0": Fraction(m.get(n, dflt))
    if func == "ob_bpm_at_floats":
        m = dict(m)
        bp = (120, 7, 90)[: shape[0] + 1]
        for i, v in enumerate(bp):
            m[f"b{i}"] = str(v)
        m["__den__"] = str(tc.time_unit_den(bp))
    c = tc.model_timing(m, shape)
    td = tc.real_td(c)
    q = Beat(g("kq"), 48) if False else Beat(int(g("kq")), 48)
    tag = int(data["args"][2]) if func == "ob_time_at" and data["args"][2] is not None else int(g("tag", "5"))
    TOL = 1e-9
    if func == "ob_time_at":
        got = float(TimingEngine(td).time_at(q, EventTag(tag)))
        exp = tc.exact_time(c, Fraction(q), tag)
        return abs(got - float(exp)) > TOL, f"time_at({q!r},{tc.TAGS[tag]}) = {got!r}, exact timeline = {float(exp)!r}; timing={c}"
    if func == "ob_history":
        e = TimingEngine(td)
        q0 = Beat(int(g("k0")), 48); prev = int(g("prev"))
        if prev == 0:
            e.time_at(q0, EventTag(int(g("tag0", "5"))))
        elif prev == 1:
            e.bpm_at(q0)
        else:
            e.hittable(q0)
        got = float(e.time_at(q, EventTag(tag)))
        exp = tc.exact_time(c, Fraction(q), tag)
        return abs(got - float(exp)) > TOL, f"after an earlier query ({['time_at', 'bpm_at', 'hittable'][prev]} at {q0!r}) time_at({q!r},{tc.TAGS[tag]}) = {got!r}, exact timeline = {float(exp)!r}; timing={c}"
    if func in ("ob_bpm_at", "ob_bpm_at_floats"):
        got = Fraction(TimingEngine(td).bpm_at(q)); exp = tc.exact_bpm(c, Fraction(q))
        return got != exp, f"bpm_at({q!r}) = {got}, expected {exp}; timing={c}"
    if func == "ob_monotone":
        q2 = Beat(int(g("kq2")), 48); tag2 = int(g("tag2", "5"))
        e = TimingEngine(td)
        a, b = float(e.time_at(q, EventTag(tag))), float(e.time_at(q2, EventTag(tag2)))
        return a > b + TOL, f"time_at({q!r},{tag})={a!r} > time_at({q2!r},{tag2})={b!r}; timing={c}"
    if func == "ob_offset":
        from decimal import Decimal
        d = g("dd")
        a = float(TimingEngine(td).time_at(q, EventTag(tag)))
        c2 = dict(c); c2["off"] = c["off"] + d
        td2 = tc.real_td(c2)
        b = float(TimingEngine(td2).time_at(q, EventTag(tag)))
        return abs((a - float(c2["off"] - c["off"])) - b) > TOL, f"offset {c['off']} -> {c2['off']}: time {a!r} -> {b!r}; timing={c}"
    if func == "ob_redundant_bpm":
        j = int(g("jx")); kx = g("kx") / 48
        a = TimingEngine(td)
        c2 = {k: (list(v) if isinstance(v, list) else v) for k, v in c.items()}
        c2["bpms"].insert(j + 1, (kx, c["bpms"][j][1]))
        b = TimingEngine(tc.real_td(c2))
        ta, tb = float(a.time_at(q, EventTag(tag))), float(b.time_at(q, EventTag(tag)))
        ba, bb = a.bpm_at(q), b.bpm_at(q)
        return abs(ta - tb) > TOL or ba != bb, f"redundant BPM at {kx}: time {ta!r} vs {tb!r}, bpm {ba} vs {bb}; timing={c}"
    return False, "unknown obligation"


def main(tier):
    from vlib import core
    chk = core.Check(PROP, tier, "harness." + PROP, FUNCTIONS,
                     bounds={"quick": "<=3 events besides the first BPM (<=2 per kind) on a tick grid 0..12, plus three warps (with/without a stop) on a grid 0..8; query ticks -G..3G, all 7 tags",
                             "thorough": "<=4 events (<=2 per kind), tick grid 0..48; plus selected shapes on a grid 0..100000"}[tier],
                     assumptions=ASSUMPTIONS, outside=OUTSIDE)
    chk.add_results(core.run_obligations("harness." + PROP, obligations(tier)))
    return chk.finish(signature)
