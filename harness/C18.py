"""C18 — attribute and key views never disagree (engine xh, one inductive step from an arbitrary pre-state)."""
from vlib import xhprop

PROP = "C18"
FILE = "xh_C18.py"
FUNCTIONS = ["simfile._private.property.item_property (_name_or_alias, getter, setter, deleter)", "alias declarations in base.py / sm.py / ssc.py",
             "SMChart.__getitem__/__setitem__/__delitem__/update/pop/popitem", "BaseSimfile.__eq__, serialize (recorded parameters)"]
ASSUMPTIONS = [
    "one inductive step: the pre-state is an arbitrary ordered mapping over {standard key, alias (or would-be alias) key, a fresh key, one more known key} with symbolic presence bits, "
    "rotation/reversal of the insertion order and symbolic values of length <= 1 ('' included); histories of any length are covered if this step preserves the dict model",
    "msdparser is the environment (StubParam recorder) for the 'serialization sees the mapping' clause",
]
OUTSIDE = ["values longer than 1 character (they are only moved and compared)", "keys outside the four roles", "multi-threaded use"]


def obligations(tier):
    T = 90 if tier == "quick" else 900
    obs = [dict(name="selftest_strip", func="selftest_strip", file="xhlib.py", timeout=60, bounds="engine self-test")]
    for case in range(7):
        for op in range(15):
            if tier == "quick" and case in (2, 6) and op not in (0, 1, 2, 12, 13, 14):
                continue   # properties without an alias: the key-level operations run in the thorough tier only
            obs.append(dict(name=f"step[case{case},op{op}]", func="step", pre=f"case == {case} and op == {op}", timeout=T,
                            bounds="presence bits x 4 rotations x reversal x values <=1 char"))
    for case in range(7):
        obs.append(dict(name=f"eq_content[case{case}]", func="eq_content", pre=f"case == {case}", timeout=T,
                        bounds="two objects with one key set whose values line up by position but sit under other keys (3 rotations), values <=1 symbolic, with/without charts: unequal unless the mappings coincide"))
    for ci in range(4):
        obs.append(dict(name=f"all_props[{['SMSimfile','SSCSimfile','SSCChart','SMChart'][ci]}]", func="all_props", pre=f"ci == {ci}", timeout=T,
                        bounds="every known-property attribute of the class (found by introspection, symbolic index): attribute <-> upper-case key, other keys untouched"))
    for op in range(17):
        obs.append(dict(name=f"smchart_step[op{op}]", func="smchart_step", pre=f"op == {op}", timeout=T, bounds="field index symbolic, value <=2, one symbolic field"))
    return obs


def signature(ob, res):
    cex = res.get("cex") or {}
    if ob["func"] == "smchart_step":
        return "smchart_step:op%s" % cex.get("op")
    return "step:case%s" % cex.get("case")


def replay(data):
    from vlib import xh
    return xh.replay("xh_C18", data)


def main(tier):
    return xhprop.main(PROP, tier, FILE, obligations(tier), FUNCTIONS, ASSUMPTIONS, OUTSIDE, signature, extra_chars=(1 if tier == "thorough" else 0),
                       bounds="7 (object kind, property) cases x 15 operations from every pre-state over 4 key roles; SM chart: 14 operations")
