"""C18 — attribute and key views of a simfile or chart never disagree (CrossHair harness, one inductive step)."""
import copy
import xhlib
from xhlib import L1, L2, L3, L4
from xhlib import record, gaps_blank
from simfile.sm import SMSimfile, SMChart, SM_CHART_PROPERTIES
from simfile.ssc import SSCSimfile, SSCChart

LAST = None
# (kind, attribute, standard key, alias key or None)
CASES = [
    ("sm", "stops", "STOPS", "FREEZES"),
    ("sm", "bgchanges", "BGCHANGES", "ANIMATIONS"),
    ("sm", "title", "TITLE", None),
    ("ssc", "bgchanges", "BGCHANGES", "ANIMATIONS"),
    ("ssc", "stops", "STOPS", None),          # FREEZES is NOT an alias in SSC simfiles
    ("sscchart", "notes", "NOTES", "NOTES2"),
    ("sscchart", "credit", "CREDIT", None),
]
NOPS = 15


def _new(kind):
    if kind == "sm":
        return SMSimfile(string="")
    if kind == "ssc":
        return SSCSimfile(string="")
    return SSCChart()


def step(case: int, op: int, p_std: bool, p_alias: bool, p_x: bool, p_y: bool, rot: int, rev: bool, vs: str, va: str, vx: str, nv: str) -> bool:
    """
    pre: 0 <= case < len(CASES) and 0 <= op < NOPS and 0 <= rot < 4
    pre: len(vs) <= L1 and len(va) <= L1 and len(vx) <= L1 and len(nv) <= L1
    post: _
    """
    global LAST
    kind, attr, std, alias = CASES[case]
    other = "FREEZES" if (alias is None and std == "STOPS") else (alias or "SUBTITLE")  # key that must NOT act as an alias when alias is None
    entries = []
    if p_std:
        entries.append((std, vs))
    if p_alias:
        entries.append((other, va))
    if p_x:
        entries.append(("ZZFRESH", vx))
    if p_y:
        entries.append(("ARTIST", "y"))
    if entries:
        r = rot % len(entries)
        entries = entries[r:] + entries[:r]
    if rev:
        entries.reverse()
    obj = _new(kind)
    model = []  # ordered list of [key, value]
    for k, v in entries:
        obj[k] = v
        model.append([k, v])

    def mkeys():
        return [k for k, _ in model]

    def mget(k, d=None):
        for kk, vv in model:
            if kk == k:
                return vv
        return d

    def mset(k, v):
        for e in model:
            if e[0] == k:
                e[1] = v
                return
        model.append([k, v])

    def mdel(k):
        for i, e in enumerate(model):
            if e[0] == k:
                del model[i]
                return True
        return False

    def attr_key():
        if std not in mkeys() and alias is not None and alias in mkeys():
            return alias
        return std

    ok = True
    if op == 0:
        ok = getattr(obj, attr) == mget(attr_key())
        if mget(attr_key()) is None:
            ok = ok and getattr(obj, attr) is None
    elif op == 1:
        k = attr_key()
        setattr(obj, attr, nv)
        mset(k, nv)
    elif op == 2:
        k = attr_key()
        try:
            delattr(obj, attr)
            ok = mdel(k)
        except KeyError:
            ok = k not in mkeys()
    elif op in (3, 6, 9):
        k = [std, other, "ZZFRESH"][(op - 3) // 3]
        try:
            got = obj[k]
            ok = k in mkeys() and got == mget(k)
        except KeyError:
            ok = k not in mkeys()
    elif op in (4, 7, 10):
        k = [std, other, "ZZFRESH"][(op - 4) // 3]
        obj[k] = nv
        mset(k, nv)
    elif op in (5, 8, 11):
        k = [std, other, "ZZFRESH"][(op - 5) // 3]
        try:
            del obj[k]
            ok = mdel(k)
        except KeyError:
            ok = k not in mkeys()
    elif op == 12:
        ok = ((std in obj) == (std in mkeys())) and ((other in obj) == (other in mkeys())) and (("ZZFRESH" in obj) == ("ZZFRESH" in mkeys())) and len(obj) == len(model)
    elif op == 13:
        ok = list(obj) == mkeys() and list(obj.values()) == [v for _, v in model] and list(obj.keys()) == mkeys()
    else:
        # get via .get / pop with default leave everything else alone
        ok = obj.get(std, "dflt") == mget(std, "dflt")
    if not ok:
        LAST = ("operation result", op, list(obj.items()), model)
        return False
    # after the step: same mapping and order in both views
    if list(obj.items()) != [(k, v) for k, v in model]:
        LAST = ("mapping differs", list(obj.items()), model)
        return False
    want = mget(attr_key())
    if getattr(obj, attr) != want or (want is None and getattr(obj, attr) is not None):
        LAST = ("attribute view", getattr(obj, attr), want)
        return False
    # equality and serialization see exactly the mapping's content
    twin = _new(kind)
    for k, v in model:
        twin[k] = v
    if not (obj == twin) or (obj != twin):
        LAST = ("equality with a copy",)
        return False
    if kind != "sscchart":
        stream, text, gaps, idxs = record(obj)
        if [c[0] for c in stream] != mkeys() or not gaps_blank(gaps):
            LAST = ("serialized keys", [c[0] for c in stream], mkeys())
            return False
        for c, (k, v) in zip(stream, model):
            if tuple(c[1:]) != (v,):
                LAST = ("serialized value", c, v)
                return False
    elif "NOTES" in mkeys() or "NOTES2" in mkeys():
        stream, text, gaps, idxs = record(obj)
        got = sorted(c[0] for c in stream[1:])
        if got != sorted(mkeys()):
            LAST = ("serialized chart keys", got, mkeys())
            return False
    # serializing is a read: afterwards the object still holds the same mapping in the same order and equals its copy
    if list(obj.items()) != [(k, v) for k, v in model] or not (obj == twin):
        LAST = ("serialization changed the object", list(obj.items()), model)
        return False
    return True


def eq_content(case: int, v1: str, v2: str, v3: str, rot: int, with_charts: bool) -> bool:
    """
    pre: 0 <= case < len(CASES) and 0 <= rot <= 2
    pre: len(v1) <= L1 and len(v2) <= L1 and len(v3) <= L1
    post: _
    """
    # equality sees exactly the mapping's content: two objects whose key -> value mappings differ are unequal, even if they
    # hold the same key set and their values line up position by position (same values, stored under other keys)
    kind, attr, std, alias = CASES[case]
    keys = [std, alias or "ZZOTHER", "ZZFRESH"]
    vals = [v1, v2, v3]
    a, b = _new(kind), _new(kind)
    for k, v in zip(keys, vals):
        a[k] = v
    rk = keys[rot + 1:] + keys[:rot + 1] if rot < 2 else [keys[1], keys[0], keys[2]]
    for k, v in zip(rk, vals):
        b[k] = v                      # same key set, same values by position, other key -> value mapping
    if with_charts and kind != "sscchart":
        for o in (a, b):
            o.charts.append(SSCChart.blank() if kind == "ssc" else SMChart.blank())
    same_mapping = all(a[k] == b[k] for k in keys)
    if same_mapping:
        return True                   # e.g. all three values equal: the mappings coincide, nothing is claimed about order here
    return (a != b) and not (a == b)


SMOPS = 17


def smchart_step(op: int, i: int, v: str, f0: str) -> bool:
    """
    pre: 0 <= op < SMOPS and 0 <= i < 6
    pre: len(v) <= L2 and len(f0) <= L2 and f0 == f0.strip()
    post: _
    """
    global LAST
    fields = ["dance-single", "desc", "Hard", "9", "0.1", "0000"]
    fields[i] = f0
    ch = SMChart.from_msd(fields)
    model = list(fields)
    key = SM_CHART_PROPERTIES[i]
    attr = key.lower()
    refused = None
    try:
        if op == 0:
            setattr(ch, attr, v); model[i] = v
        elif op == 1:
            ch[key] = v; model[i] = v
        elif op == 2:
            if ch[key] != model[i] or getattr(ch, attr) != model[i]:
                return False
        elif op == 3:
            refused = False
            ch["ZZFRESH"] = v            # adding a key
        elif op == 4:
            refused = False
            ch[attr] = v                 # lower-case spelling of a field name: not one of the six keys
        elif op == 5:
            refused = False
            del ch[key]
        elif op == 6:
            refused = False
            ch.pop(key)
        elif op == 7:
            refused = False
            ch.popitem()
        elif op == 8:
            refused = False
            ch.update({key: v})
        elif op == 9:
            refused = False
            delattr(ch, attr)
        elif op == 10:
            refused = False
            ch["ZZFRESH"]
        elif op == 11:
            if (key in ch) is not True or ("ZZFRESH" in ch) or len(ch) != 6:
                return False
        elif op == 12:
            refused = False
            ch.pop("ZZFRESH", None)
        elif op == 13:
            refused = False
            ch.setdefault("ZZFRESH", v)
        elif op == 14:
            ch.move_to_end(key)                       # reordering the mapping neither adds nor removes a key
        elif op == 15:
            ch.move_to_end(key, last=False)
        else:
            ch = SMChart()                            # the six fields assigned in reverse order on an empty chart
            for j in range(5, -1, -1):
                setattr(ch, SM_CHART_PROPERTIES[j].lower(), model[j])
    except (KeyError, NotImplementedError):
        refused = True
    if refused is False:
        LAST = ("not refused", op)
        return False
    # six fixed fields, in order, in both views
    if (sorted(ch.keys()) != sorted(SM_CHART_PROPERTIES)) if op >= 14 else (list(ch.keys()) != list(SM_CHART_PROPERTIES)):
        LAST = ("keys", list(ch.keys()))
        return False
    for j, k in enumerate(SM_CHART_PROPERTIES):
        if ch[k] != model[j] or getattr(ch, k.lower()) != model[j]:
            LAST = ("views differ", k)
            return False
    stream, text, gaps, idxs = record(ch)
    if len(stream) != 1 or stream[0][0] != "NOTES" or [c.strip() for c in stream[0][1:7]] != [m.strip() for m in model]:
        LAST = ("serialized", stream)
        return False
    other = SMChart.from_msd(["a", "b", "c", "d", "e", "f"])
    for j, k in enumerate(SM_CHART_PROPERTIES):
        setattr(other, k.lower(), model[j])
    return ch == other


def _known_props(cls):
    return sorted(n for n in dir(cls) if isinstance(getattr(cls, n, None), property) and n != "charts")


CLASSES = [SMSimfile, SSCSimfile, SSCChart, SMChart]
PROPS = [_known_props(c) for c in CLASSES]


def all_props(ci: int, pi: int, v: str, w: str) -> bool:
    """
    pre: 0 <= ci < len(CLASSES) and 0 <= pi < len(PROPS[ci])
    pre: len(v) <= L1 and len(w) <= L1
    post: _
    """
    # every known-property attribute (regenerated by introspection) reads and writes the key spelled like the attribute in
    # upper case, and nothing else
    cls = CLASSES[ci]
    name = PROPS[ci][pi]
    key = name.upper()
    if cls is SMChart:
        obj = SMChart.from_msd(["a", "b", "c", "d", "e", "f"])
        before = dict(obj)
    else:
        obj = cls() if cls is SSCChart else cls(string="")
        obj["ZZFRESH"] = "z"
        before = dict(obj)
    setattr(obj, name, v)
    if obj[key] != v or getattr(obj, name) != v:
        return False
    obj[key] = w
    if getattr(obj, name) != w:
        return False
    after = dict(obj)
    after.pop(key)
    before.pop(key, None)
    return after == before
