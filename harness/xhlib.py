"""Prelude shared by the CrossHair harness modules (DESIGN 3.2).

* work-around for a CrossHair 0.0.110 defect in rstrip()/strip() of symbolic strings,
* StubParam: recording stand-in for msdparser.MSDParameter at the dependency boundary,
* ModelFS: a pure-Python model filesystem with call log, decode outcomes and fault injection,
* the key set regenerated from the repository's source (upper-case string literals).
"""
import ast, io, os, re, sys

REPO = os.environ.get("VERIF_REPO", "/repo")
# string length bounds of the harness preconditions: the thorough tier of some properties adds one character (XH_EXTRA=1)
XH_EXTRA = int(os.environ.get("XH_EXTRA", "0") or 0)
L1, L2, L3, L4 = 1 + XH_EXTRA, 2 + XH_EXTRA, 3 + XH_EXTRA, 4 + XH_EXTRA

# ------------------------------------------------------------------ CrossHair engine defect work-around
try:
    from crosshair.libimpl.builtinslib import AnySymbolicStr

    def _rstrip(self, chars=None):
        if chars is None:
            def stripped(ch): return ch.isspace()
        elif isinstance(chars, str):
            def stripped(ch): return ch in chars
        else:
            raise TypeError
        n = self.__len__()
        while n > 0 and stripped(self[n - 1]):
            n -= 1
        return self[:n]
    AnySymbolicStr.rstrip = _rstrip
except Exception:  # plain replay without crosshair importable: nothing to patch
    pass

import msdparser
import simfile, simfile.base, simfile.sm, simfile.ssc
from msdparser import MSDParameter as RealMSDParameter

class ModelLimit(Exception):
    """the code under test used the model environment (model filesystem, parameter recorder) in a way the model cannot
    answer, e.g. a binary read while decoding is an abstract outcome bit, or msdparser's component-level API: the obligation
    is inconclusive, never a violation"""


# ------------------------------------------------------------------ StubParam
class _Rec(list):
    """list of recorded component tuples, plus a side table for interned concrete parameters (negative indices are not used:
    interned entries live in .fixed under large indices derived from their content)"""

    def __init__(self):
        super().__init__()
        self.fixed = {}

    def __getitem__(self, i):
        if isinstance(i, int) and i >= _FIXED_BASE:
            return self.fixed[i]
        return super().__getitem__(i)


_FIXED_BASE = 10 ** 9
REC = _Rec()

try:
    from crosshair.tracers import NoTracing as _NoTracing
except Exception:   # plain replay without crosshair
    import contextlib
    _NoTracing = contextlib.nullcontext


def _intern(comps):
    """index >= _FIXED_BASE for an all-concrete component tuple (a pure function of its content), None otherwise"""
    import zlib
    with _NoTracing():
        if not all(type(c) is str for c in comps):
            return None
        i = _FIXED_BASE + zlib.crc32(repr(comps).encode("utf-8", "surrogatepass"))
        while REC.fixed.get(i, comps) != comps:   # crc collision between different contents: next free slot
            i += 1
        REC.fixed[i] = comps
        return i


class StubParam:
    """Stands in for msdparser.MSDParameter: keeps only an integer index into REC; renders as the marker '#<n>;'.
    Contract modelled from msdparser.parameter: components are strings (rendering a non-string component fails the way
    the real serializer does: AttributeError from component.replace)."""

    def __init__(self, components):
        comps = tuple(components)
        # concrete parameters are interned by content: serializing the same concrete content twice gives the same text, as
        # with the real MSDParameter (code that compares two serializations must see them equal).  Parameters with a symbolic
        # component always get a fresh index.  The look-up runs outside CrossHair's tracing (it must neither see the faked
        # type of a symbolic string nor count as part of the explored path) and is idempotent across re-executions.
        self.idx = _intern(comps)
        if self.idx is None:
            REC.append(comps)
            self.idx = len(REC) - 1

    @property
    def components(self):
        return REC[self.idx]

    @property
    def key(self):
        return REC[self.idx][0]

    @property
    def value(self):
        c = REC[self.idx]
        return c[1] if len(c) > 1 else None

    def _render(self):
        for c in REC[self.idx]:
            if c is None or isinstance(c, (int, float, bytes, list, tuple, dict)):
                raise AttributeError("'%s' object has no attribute 'replace'" % type(c).__name__)
        return "#<%d>;" % self.idx

    def __str__(self, *, escapes=True):
        if not escapes:
            raise ModelLimit("ModelLimit: MSDParameter.__str__(escapes=False) is not modelled by the recorder")
        return self._render()

    def __format__(self, spec):
        return self._render()

    # the rest of msdparser's MSDParameter API: a serializer that bypasses str(param) cannot be followed by the recorder; the
    # obligation is then inconclusive (the real-serializer family xh_escapes decides such code), never a violation
    _MUST_ESCAPE = ("//", ":", ";")

    def serialize(self, file, *, escapes=True):
        if not escapes:
            raise ModelLimit("ModelLimit: MSDParameter.serialize(escapes=False) is not modelled by the recorder")
        file.write(self._render())

    @staticmethod
    def serialize_component(component, *, escapes=True):
        raise ModelLimit("ModelLimit: MSDParameter.serialize_component is not modelled by the recorder")


def install_stub():
    for m in (simfile.base, simfile.sm, simfile.ssc):
        m.MSDParameter = StubParam


def install_real():
    for m in (simfile.base, simfile.sm, simfile.ssc):
        m.MSDParameter = RealMSDParameter


install_stub()

_MARK = re.compile(r"#<(\d+)>;")


def record(obj):
    """serialize obj (simfile or chart) with the recorder: -> (list of component tuples, text, gaps, marker order)
    gaps = the pieces of text written between/around the markers.  The parameters are read off the text itself: every
    marker is looked up in REC, which is never reset here, so a serializer that legitimately reuses an earlier rendering
    of an unchanged chart still denotes the right parameters (and a stale one denotes the old ones).  The returned text has
    its markers renumbered in order of appearance, so that two serializations can be compared with ==."""
    out = io.StringIO()
    obj.serialize(out)
    text = out.getvalue()
    raw = [int(x) for x in _MARK.findall(text)]
    gaps = _MARK.split(text)[0::2]
    if any((i >= len(REC) and i < _FIXED_BASE) or (i >= _FIXED_BASE and i not in REC.fixed) for i in raw):
        return [], text, ["unknown marker"], [-1]
    stream = [REC[i] for i in raw]
    counter = iter(range(len(raw)))
    norm = _MARK.sub(lambda m: "#<%d>;" % next(counter), text)
    return stream, norm, gaps, list(range(len(stream)))


def record_keep(obj):
    """serialize obj and return (parameter stream, text); the stream is read off the text's markers (concrete parameters are
    interned, so a serialization need not add entries to REC)"""
    out = io.StringIO()
    obj.serialize(out)
    text = out.getvalue()
    return [REC[int(x)] for x in _MARK.findall(text)], text


def stream_of_text(text):
    """the parameter stream denoted by a marker text, or None if anything but blanks lies between markers"""
    gaps = _MARK.split(text)[0::2]
    if not gaps_blank(gaps):
        return None
    return [REC[int(x)] for x in _MARK.findall(text)]


def params(stream):
    """iterator of parameter objects over recorded component tuples"""
    return iter([StubParam(c) for c in stream])


def gaps_blank(gaps):
    """nothing but blanks and '//' comments between parameters (a comment runs to the end of its line; whatever follows a line
    break inside it is ordinary text again, i.e. stray text for the strict parser)"""
    for g in gaps:
        if g.strip() == "":
            continue
        for line in g.replace(chr(13), chr(10)).split(chr(10)):
            k = line.find("//")
            if (line if k < 0 else line[:k]).strip() != "":
                return False
    return True


# ------------------------------------------------------------------ key set regenerated from the source
def _upper_literals():
    keys = []
    for rel in ("simfile/base.py", "simfile/sm.py", "simfile/ssc.py", "simfile/convert.py", "simfile/timing/_private/timingsource.py", "simfile/assets.py"):
        try:
            tree = ast.parse(open(os.path.join(REPO, rel)).read())
        except OSError:
            continue
        for node in ast.walk(tree):
            if isinstance(node, ast.Constant) and isinstance(node.value, str):
                v = node.value
                if v and v.upper() == v and re.fullmatch(r"[A-Z][A-Z0-9]*", v) and v not in keys:
                    keys.append(v)
    return keys


# near misses of the keys the code special-cases (a prefix/suffix test instead of equality would confuse them)
NEAR_MISS = [k + "X" for k in ("NOTES", "NOTES2", "NOTEDATA", "ATTACKS", "DISPLAYBPM", "VERSION")] + ["X" + k for k in ("NOTES", "NOTEDATA", "ATTACKS")] + ["NOTESKIN", "NOTE"]
KEYS = _upper_literals() + ["ZZFRESH", "X"] + NEAR_MISS
SM_KEYS = [k for k in KEYS if k != "NOTES"]
SSC_KEYS = [k for k in KEYS if k != "NOTEDATA"]


# ------------------------------------------------------------------ model filesystem
class _Writer(io.StringIO):
    def __init__(self, fs, name):
        super().__init__()
        self.fs, self.name_ = fs, name

    def write_initial(self, s):
        io.StringIO.write(self, s)

    def write(self, s):
        self.fs.tick("write:" + self.name_)
        if self.fs.unencodable is not None and self.fs.unencodable in s:
            raise UnicodeEncodeError(self.fs.write_encoding.get(self.name_) or "x", self.fs.unencodable, 0, 1, "model")
        r = super().write(s)
        self.fs.files[self.name_] = self.getvalue()
        return r

    def close(self):
        if not self.closed:
            self.fs.tick("close:" + self.name_)
            self.fs.files[self.name_] = self.getvalue()
            self.fs.closed.append(self.name_)
        super().close()


class ModelFS:
    """dict-backed filesystem: files name->text, dirs set of directory paths; open() logs every call with its kwargs;
    decodes: encoding -> bool (reads under that encoding fail with UnicodeDecodeError when False);
    fail_at: the k-th filesystem operation (open/write/close) raises OSError."""

    def __init__(self, files=None, dirs=(), decodes=None, fail_at=0, unencodable=None, listing=None):
        self.files = dict(files or {})
        self.dirs = set(dirs)
        self.decodes = decodes
        self.fail_at = fail_at
        self.unencodable = unencodable
        self.n = 0
        self.log = []
        self.oplog = []
        self.closed = []
        self.write_encoding = {}
        self.listing = listing  # optional explicit dir -> [names]

    def tick(self, what):
        self.n += 1
        self.oplog.append(what)
        if self.n == self.fail_at:
            raise OSError("injected fault at operation %d (%s)" % (self.n, what))

    def open(self, name, mode="r", encoding=None, **kw):
        self.log.append(("open", name, mode, encoding, tuple(sorted(kw.items()))))
        self.tick("open-%s:%s" % (mode, name))
        if mode == "r":
            if self.decodes is not None and not self.decodes.get(encoding, False):
                raise UnicodeDecodeError(encoding or "x", b"\xff", 0, 1, "model")
            if name not in self.files:
                raise FileNotFoundError(name)
            # like a real text-mode open(): a TextIOWrapper whose .name is the path (format detection looks at it)
            raw = io.BytesIO(self.files[name].encode("utf-8"))
            raw.name = name
            return io.TextIOWrapper(raw, encoding="utf-8", newline="")
        if mode == "a":
            # append mode: creates the file if it does not exist, keeps existing content
            self.files.setdefault(name, "")
            self.write_encoding[name] = encoding
            w = _Writer(self, name)
            w.write_initial(self.files[name])
            return w
        if mode != "w":
            if mode == "rb" and self.decodes is None:
                if name not in self.files:
                    raise FileNotFoundError(name)
                raw = io.BytesIO(self.files[name].encode("utf-8"))
                raw.name = name
                return raw
            raise ModelLimit("ModelLimit: open(%r, %r) is not modelled" % (name, mode))
        self.files[name] = ""  # truncation on open('w')
        self.write_encoding[name] = encoding
        return _Writer(self, name)

    def _children(self, path):
        if self.listing is not None:
            return list(self.listing.get(path, []))
        p = path.rstrip("/") + "/"
        out = []
        for n in list(self.files) + list(self.dirs):
            if n.startswith(p):
                rest = n[len(p):]
                first = rest.split("/")[0]
                if first and first not in out:
                    out.append(first)
        return out

    def listdir(self, path):
        self.log.append(("listdir", path))
        if self.listing is not None:
            if path not in self.listing:
                raise FileNotFoundError(path)
        return self._children(path)

    def isdir(self, path):
        return path in self.dirs or (self.listing is not None and path in self.listing)

    def exists(self, path):
        return path in self.files or self.isdir(path)


class _BytesWriter(io.StringIO):
    def __init__(self, fs, name, encoding, errors):
        super().__init__()
        self.fs, self.name_, self.enc_, self.errors_ = fs, name, encoding, errors

    def _flush(self):
        self.fs.files[self.name_] = self.getvalue().encode(self.enc_, self.errors_ or "strict")   # real codec

    def write(self, s):
        r = super().write(s)
        self._flush()
        return r

    def close(self):
        if not self.closed:
            self._flush()
            self.fs.closed.append(self.name_)
        super().close()


class BytesFS:
    """byte-level model filesystem: files are bytes, text-mode reads and writes go through Python's real codecs (the trusted
    base the property names), binary reads are allowed.  Newline translation is switched off (the property excludes it)."""

    def __init__(self, files):
        self.files = dict(files)
        self.log = []
        self.closed = []

    def open(self, name, mode="r", encoding=None, errors=None, **kw):
        self.log.append(("open", name, mode, encoding))
        if mode in ("r", "rt"):
            if name not in self.files:
                raise FileNotFoundError(name)
            raw = io.BytesIO(self.files[name])
            raw.name = name
            return io.TextIOWrapper(raw, encoding=encoding or "utf-8", errors=errors, newline="")
        if mode == "rb":
            if name not in self.files:
                raise FileNotFoundError(name)
            raw = io.BytesIO(self.files[name])
            raw.name = name
            return raw
        if mode in ("w", "wt"):
            self.files[name] = b""
            return _BytesWriter(self, name, encoding or "utf-8", errors)
        raise ModelLimit("ModelLimit: open(%r, %r) is not modelled" % (name, mode))

    def exists(self, path):
        return path in self.files

    def isdir(self, path):
        return False

    def listdir(self, path):
        return []


# ------------------------------------------------------------------ engine self-test (must come back Confirmed)
def selftest_strip(s: str) -> bool:
    """
    pre: len(s) <= 3
    pre: s == s.strip()
    post: _
    """
    return ("\n" + s + "\n").strip() == s and (s + "\n")[: len(s)] == s and ("  " + s + " \n").strip() == s
