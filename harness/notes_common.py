"""Shared pieces of the note-stream harnesses (C09, C10): symbolic note streams and a declarative reference for
group_notes written in a different style from the implementation (per-column pairing pass + stream-order emission pass,
no buffer / held-column state machine)."""
from fractions import Fraction

KINDS5 = ["TAP", "HOLD_HEAD", "ROLL_HEAD", "TAIL", "MINE"]
KINDS7 = KINDS5 + ["LIFT", "FAKE"]
KINDS6 = KINDS5 + ["LIFT"]
KINDS3 = ["TAP", "HOLD_HEAD", "TAIL"]
HEADS = ("HOLD_HEAD", "ROLL_HEAD")


def kinds_all(NoteType):
    """every member of the repository's NoteType enum, in definition order (regenerated from the source on every run)"""
    return [t.name for t in NoteType]


def kindlist(kindset, NoteType):
    return {3: KINDS3, 5: KINDS5, 6: KINDS6, 7: KINDS7}[kindset] if kindset != "all" else kinds_all(NoteType)
INCLUDE_SETS = {
    "all": None,
    "default": ("TAP", "HOLD_HEAD", "ROLL_HEAD", "LIFT"),
    "holds": ("HOLD_HEAD", "TAIL"),
    "rolls": ("ROLL_HEAD", "TAIL"),
    "notails": ("TAP", "HOLD_HEAD", "ROLL_HEAD", "MINE", "LIFT", "FAKE"),
    "tapmine": ("TAP", "MINE"),
    "taptail": ("TAP", "TAIL"),
    "tailmine": ("TAIL", "MINE"),
}
SAME = ["KEEP_SEPARATE", "JOIN_BY_NOTE_TYPE", "JOIN_ALL"]
POL = ["RAISE_EXCEPTION", "KEEP_ORPHAN", "DROP_ORPHAN"]


def gen_notes(symx, mods, n, ncols, kinds, tail_keysound=False, head_keysound=True, ks_split=False):
    """n notes sorted by (beat, column) with unique positions; beats symbolic reals >= 0 (all tie patterns are solver
    branches), kind and column by solver-guided case split, keysound index symbolic or None (tails: none)."""
    import z3
    T = mods["simfile.timing"]; N = mods["simfile.notes"]
    notes, meta = [], []
    beats = [z3.Real(f"b{i}") for i in range(n)]
    for i in range(n):
        symx.CTL.assume(beats[i] >= 0)
        if i:
            symx.CTL.assume(beats[i] >= beats[i - 1])
    for i in range(n):
        kind = kinds[symx.choose(f"kind{i}", len(kinds))]
        col = symx.choose(f"col{i}", ncols)
        if i:
            symx.CTL.assume(z3.Implies(beats[i] == beats[i - 1], z3.Int(f"col{i}") > z3.Int(f"col{i-1}")))
        symx.require_feasible()
        if kind == "TAIL" and not tail_keysound:
            ks = None
        elif kind in HEADS and not head_keysound:
            ks = None
        elif ks_split:
            ks = z3.Int(f"ks{i}") if symx.choose(f"hks{i}", 2) else None
        else:
            ks = z3.Int(f"ks{i}") if i % 2 == 0 else None  # no case split: even positions carry a symbolic keysound
        notes.append(N.Note(beat=T.Beat(symx.FracShim(beats[i])), column=col, note_type=N.NoteType[kind],
                            keysound_index=symx.SymInt(ks) if ks is not None else None))
        meta.append(dict(i=i, beat=beats[i], kind=kind, col=col, ks=ks))
    return notes, meta


def beq(symx, a, b):
    """are two symbolic beats equal on this path (solver case split)"""
    return symx.CTL.branch(a == b)


def reference_group(symx, meta, include, same, join, ohead, otail):
    """-> ("raise", None) or ("ok", groups) where groups is a list of lists of items;
    item = ("note", i) | ("joined", head_i, tail_i)"""
    inc = [m for m in meta if include is None or m["kind"] in include]
    status = {}  # i -> ("plain",) | ("joined", tail) | ("drop",)
    raise_ = False
    if join:
        bycol = {}
        for m in inc:
            bycol.setdefault(m["col"], []).append(m)
        for col, ms in bycol.items():
            for j, m in enumerate(ms):
                nxt = ms[j + 1] if j + 1 < len(ms) else None
                prv = ms[j - 1] if j else None
                if m["kind"] in HEADS:
                    if nxt is not None and nxt["kind"] == "TAIL":
                        status[m["i"]] = ("joined", nxt["i"])
                    else:
                        if ohead == "RAISE_EXCEPTION":
                            raise_ = True
                        status[m["i"]] = ("plain",) if ohead == "KEEP_ORPHAN" else ("drop",)
                elif m["kind"] == "TAIL":
                    if prv is not None and prv["kind"] in HEADS:
                        status[m["i"]] = ("drop",)  # consumed by its head
                    else:
                        if otail == "RAISE_EXCEPTION":
                            raise_ = True
                        status[m["i"]] = ("plain",) if otail == "KEEP_ORPHAN" else ("drop",)
                else:
                    status[m["i"]] = ("plain",)
    else:
        for m in inc:
            status[m["i"]] = ("plain",)
    if raise_:
        return "raise", None
    emitted = []
    for m in inc:
        st = status[m["i"]]
        if st[0] == "plain":
            emitted.append(("note", m["i"]))
        elif st[0] == "joined":
            emitted.append(("joined", m["i"], st[1]))
    rows = []
    for it in emitted:
        if rows and beq(symx, meta[rows[-1][-1][1]]["beat"], meta[it[1]]["beat"]):
            rows[-1].append(it)
        else:
            rows.append([it])
    groups = []
    for row in rows:
        if same == "KEEP_SEPARATE":
            groups += [[it] for it in row]
        elif same == "JOIN_ALL":
            groups.append(row)
        else:
            seen = []
            for it in row:
                k = meta[it[1]]["kind"]
                if k not in seen:
                    seen.append(k)
                    groups.append([x for x in row if meta[x[1]]["kind"] == k])
    return "ok", groups


def match_item(symx, mods, got, item, notes, meta):
    """z3 conditions (list) that output element `got` is the reference item, or False"""
    import z3
    N = mods["simfile.notes"]; G = mods["simfile.notes.group"]
    src = meta[item[1]]
    if item[0] == "note":
        if type(got) is not N.Note:
            return False
    else:
        if type(got) is not G.NoteWithTail:
            return False
    if got.column != src["col"] or got.note_type is not N.NoteType[src["kind"]] or got.player != 0:
        return False
    if (got.keysound_index is None) != (src["ks"] is None):
        return False
    c = [symx.zr(symx.term_of(got.beat)) == src["beat"]]
    if src["ks"] is not None:
        c.append(symx.term_of(got.keysound_index) == src["ks"])
    if item[0] == "joined":
        c.append(symx.zr(symx.term_of(got.tail_beat)) == meta[item[2]]["beat"])
    return c


def match_groups(symx, mods, out, groups, notes, meta):
    import z3
    if len(out) != len(groups):
        return False, ("group count", len(out), len(groups))
    conds = []
    for go, gr in zip(out, groups):
        if len(go) != len(gr):
            return False, ("group size", len(go), len(gr))
        for a, it in zip(go, gr):
            c = match_item(symx, mods, a, it, notes, meta)
            if c is False:
                return False, ("item", repr(it))
            conds += c
    return (z3.And(*conds) if conds else True), ("groups", len(groups))


# ---------------------------------------------------------------- concrete side (replay)
def model_notes(model, n, ncols, kinds, tail_keysound=False, head_keysound=True, ks_split=False):
    from simfile.timing import Beat
    from simfile.notes import Note, NoteType
    g = lambda k, d="0": Fraction(model.get(k, d))
    notes = []
    for i in range(n):
        kind = kinds[int(g(f"kind{i}"))]
        if (kind == "TAIL" and not tail_keysound) or (kind in HEADS and not head_keysound):
            has = 0
        else:
            has = int(g(f"hks{i}")) if ks_split else (1 if i % 2 == 0 else 0)
        notes.append(Note(beat=Beat(g(f"b{i}")), column=int(g(f"col{i}")), note_type=NoteType[kind],
                          keysound_index=int(g(f"ks{i}")) if has else None))
    return notes


def concrete_reference(notes, include, same, join, ohead, otail):
    """the same reference on concrete real Note objects; returns ("raise",None) or ("ok", groups of Note/NoteWithTail)"""
    from simfile.notes.group import NoteWithTail
    inc = [n for n in notes if include is None or n.note_type.name in include]
    status = {}
    raise_ = False
    if join:
        for col in sorted({n.column for n in inc}):
            ms = [n for n in inc if n.column == col]
            for j, m in enumerate(ms):
                nxt = ms[j + 1] if j + 1 < len(ms) else None
                prv = ms[j - 1] if j else None
                k = m.note_type.name
                if k in HEADS:
                    if nxt is not None and nxt.note_type.name == "TAIL":
                        status[id(m)] = NoteWithTail(beat=m.beat, column=m.column, note_type=m.note_type, tail_beat=nxt.beat, player=m.player, keysound_index=m.keysound_index)
                    else:
                        raise_ |= ohead == "RAISE_EXCEPTION"
                        status[id(m)] = m if ohead == "KEEP_ORPHAN" else None
                elif k == "TAIL":
                    if prv is not None and prv.note_type.name in HEADS:
                        status[id(m)] = None
                    else:
                        raise_ |= otail == "RAISE_EXCEPTION"
                        status[id(m)] = m if otail == "KEEP_ORPHAN" else None
                else:
                    status[id(m)] = m
    else:
        for m in inc:
            status[id(m)] = m
    if raise_:
        return "raise", None
    emitted = [status[id(m)] for m in inc if status[id(m)] is not None]
    rows = []
    for it in emitted:
        if rows and rows[-1][-1].beat == it.beat:
            rows[-1].append(it)
        else:
            rows.append([it])
    groups = []
    for row in rows:
        if same == "KEEP_SEPARATE":
            groups += [[it] for it in row]
        elif same == "JOIN_ALL":
            groups.append(row)
        else:
            seen = []
            for it in row:
                if it.note_type not in seen:
                    seen.append(it.note_type)
                    groups.append([x for x in row if x.note_type == it.note_type])
    return "ok", groups
