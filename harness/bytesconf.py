"""Byte-level family of C05: the real open / open_with_detected_encoding / mutate on a byte-level model filesystem whose
text-mode reads and writes go through Python's real codecs, for every configuration of a finite family (11 representative
byte contents x try_encodings orders / explicit encoding x output x backup x edits x both formats).

Concrete, not symbolic: CrossHair replaces the C codecs by its own models (measured: a counterexample it reported for a byte-
probing variant of the loader did not replay), so this family is enumerated exhaustively in plain Python.  It ties the
abstract "decode outcome bit" of the symbolic obligations to what Python's codecs really do (the property's trusted base),
and a failure is a real counterexample (it is replayed like any other)."""
import os, sys


def _mod():
    sys.path.insert(0, os.path.dirname(os.path.abspath(__file__)))
    import xh_C05
    return xh_C05


def ob_bytes(ci, budget_s=120):
    m = _mod()
    n = 0
    bad = None
    for ssc in (False, True):
        for order in range(len(m.ORDERS)):
            for explicit in range(5):
                if explicit and order:
                    continue
                n += 1
                args = dict(ci=ci, order=order, explicit=explicit, ssc=ssc)
                try:
                    ok = m.detect_bytes(**args)
                except Exception as e:
                    ok, m.LAST = False, ("raises", type(e).__name__, str(e)[:200])
                if not ok and bad is None:
                    bad = ("detect_bytes", args, m.LAST)
            for has_out in (False, True):
                for has_bak in (False, True):
                    for op in range(4):
                        n += 1
                        args = dict(ci=ci, order=order, has_out=has_out, has_bak=has_bak, op=op, ssc=ssc)
                        try:
                            ok = m.mutate_bytes(**args)
                        except Exception as e:
                            ok, m.LAST = False, ("raises", type(e).__name__, str(e)[:200])
                        if not ok and bad is None:
                            bad = ("mutate_bytes", args, m.LAST)
    r = dict(paths=n, checks=0, branches=n, solver_s=0.0, info=None, model=None)
    if bad:
        r.update(status="violated", cex=dict(fn=bad[0], args=bad[1]), info="%s%r: %s" % (bad[0], bad[1], str(bad[2])[:300]))
    else:
        r.update(status="discharged", reason="%d concrete configurations" % n)
    return r
