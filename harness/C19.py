"""C19 — directory and pack discovery (engine xh over the model filesystem; unit + logic decomposition)."""
import ast, os
from vlib import xhprop

PROP = "C19"
FILE = "xh_C19.py"
FUNCTIONS = ["simfile._private.extensions.match", "SimfileDirectory.__init__ / simfile_path / open", "SimfilePack.__init__ / _find_simfile_paths / simfile_dirs / simfiles / name",
             "simfile.opendir", "simfile.openpack", "simfile.open (model filesystem)", "FSPath (non-native branch)"]
ASSUMPTIONS = [
    "decomposition (DESIGN C19): (1) the name classification is decided as a unit for every printable-ASCII suffix of <= 4 characters; (2) discovery logic is decided over model "
    "directory trees whose entries are chosen by symbolic index from representatives of every class the unit distinguishes; glued by a run-time AST check that dir.py uses entry names only through extensions.match and path joins",
    "filesystem = ModelFS (listing order = order given; isdir by membership)",
]
OUTSIDE = ["the native filesystem (NativeOSFS, os.path) and real PyFilesystem objects", "directories with more than 3 entries / packs with more than 3 entries", "names longer than the representatives"]


def glue_ok():
    """dir.py touches a directory entry name only as an argument of extensions.match and of self._path.join"""
    from harness import xhlib  # noqa (REPO)
    src = open(os.path.join(os.environ.get("VERIF_REPO", "/repo"), "simfile", "dir.py")).read()
    tree = ast.parse(src)
    entry_vars = {"simfile_item", "pack_item"}
    bad = []
    for node in ast.walk(tree):
        if isinstance(node, ast.Name) and node.id in entry_vars and isinstance(node.ctx, ast.Load):
            pass
    # every Load of an entry variable must be a direct argument of extensions.match(...) or *.join(...)
    class V(ast.NodeVisitor):
        def visit_Call(self, call):
            fn = call.func
            name = fn.attr if isinstance(fn, ast.Attribute) else getattr(fn, "id", "")
            for a in call.args:
                if isinstance(a, ast.Name) and a.id in entry_vars:
                    if name not in ("match", "join"):
                        bad.append((name, a.id))
                    a._ok = True
            self.generic_visit(call)
    V().visit(tree)
    for node in ast.walk(tree):
        if isinstance(node, ast.Name) and node.id in entry_vars and isinstance(node.ctx, ast.Load) and not getattr(node, "_ok", False):
            bad.append(("other use", node.id, node.lineno))
    return not bad, bad


def obligations(tier):
    T = 120 if tier == "quick" else 600
    obs = [dict(name="selftest_strip", func="selftest_strip", file="xhlib.py", timeout=60, bounds="engine self-test")]
    for stem in (False, True):
        for image in (False, True):
            obs.append(dict(name=f"match_unit[stem={stem},image={image}]", func="match_unit", pre=f"stem == {stem} and image == {image}", timeout=(4 * T if image else T),
                            bounds="suffix symbolic, <= 4 printable ASCII characters"))
    for n in range(4):
        if n < 2:
            obs.append(dict(name=f"directory[{n} entries]", func="directory", pre=f"n == {n}" + (" and i1 == 1 and i2 == 2" if n == 1 else " and i0 == 0 and i1 == 1 and i2 == 2"), timeout=T,
                            bounds="entries by symbolic index from 10 representatives; ignore_duplicate, strict, stray text, encoding option symbolic"))
        else:
            for i0 in range(10):
                if tier == "quick" and n == 3 and i0 % 2:
                    continue
                obs.append(dict(name=f"directory[{n} entries, first={i0}]", func="directory", pre=f"n == {n} and i0 == {i0}" + (" and i2 == (9 if i1 != 9 and i0 != 9 else 8 if i1 != 8 and i0 != 8 else 7)" if n == 2 else "") + (" and enc and strict" if n == 3 else ""), timeout=T,
                                bounds="entries by symbolic index from 10 representatives; ignore_duplicate, strict, stray text, encoding option symbolic"))
    for n in range(4):
        if n < 2:
            obs.append(dict(name=f"pack[{n} entries]", func="pack", pre=f"n == {n}" + (" and e1 == (1 if e0 != 1 else 2) and e2 == (3 if e0 != 3 else 4)" if n == 1 else " and e0 == 0 and e1 == 1 and e2 == 2"), timeout=T,
                            bounds="pack entries by symbolic index from 8 kinds; strict, stray text, encoding option symbolic"))
        else:
            for e0 in range(8):
                obs.append(dict(name=f"pack[{n} entries, first={e0}]", func="pack", pre=f"n == {n} and e0 == {e0}" + (" and e2 == (7 if e1 != 7 and e0 != 7 else 6 if e1 != 6 and e0 != 6 else 5)" if n == 2 else " and enc"), timeout=T,
                                bounds="pack entries by symbolic index from 8 kinds; strict, stray text, encoding option symbolic"))
    return obs


def signature(ob, res):
    return ob["func"]


def replay(data):
    from vlib import xh
    if data.get("func") == "ob_fs_conformance":
        from harness import fsconf
        return fsconf.replay(data)
    return xh.replay("xh_C19", data)


def main(tier):
    ok, bad = glue_ok()
    obs = obligations(tier)
    from vlib import core
    extra = core.run_obligations("harness.fsconf", [dict(name="fs_conformance", func="ob_fs_conformance", args=(), budget_s=120,
                                 bounds="21 concrete mutate/discovery scenarios: ModelFS vs real MemoryFS vs native temp directory (validation of the model filesystem)")])
    if not ok:
        # the logic obligations still execute the real code on the representative names, so they are run; what is lost is the
        # justification for composing them with the unit obligation into a claim about ALL names -> one inconclusive entry
        print("  glue check failed (dir.py uses an entry name outside extensions.match/join: %s): the unit+logic composition is not justified" % (bad,))
        extra += [(dict(name="glue[dir.py uses entry names only through extensions.match/join]", func="glue", bounds="AST check"),
                  dict(status="inconclusive", reason="entry name used outside extensions.match/join: %s" % (bad,), paths=0, checks=0, branches=0, solver_s=0.0, wall_s=0.0))]
    return xhprop.main(PROP, tier, FILE, obs, FUNCTIONS, ASSUMPTIONS, OUTSIDE, signature, extra_results=extra,
                       bounds="classification: every printable-ASCII suffix <= 4; discovery: directories and packs of <= 3 entries drawn from representatives of every class")
