"""C06 — a failed or cancelled mutate never damages the input file (engine xh over the model filesystem, symbolic fault point)."""
from vlib import xhprop

PROP = "C06"
FILE = "xh_C05.py"
FUNCTIONS = ["simfile.mutate (try/except CancelMutation/else, backup then output)", "simfile.open_with_detected_encoding", "BaseSimfile.serialize", "SSCChart.serialize"]
ASSUMPTIONS = [
    "filesystem = ModelFS: the k-th operation (open / write / close) raises OSError for a symbolic k; an open('w') that fails does not truncate",
    "unencodable text: the model filesystem raises UnicodeEncodeError when the written text contains a marked character (real serializer, concrete value)",
]
OUTSIDE = ["real OS error behaviour, partial writes inside one write() call", "failures of write/close on the output file itself (the property claims serialization, encoding and open failures)",
           "native filesystem and real PyFilesystem implementations"]


def obligations(tier):
    T = 120 if tier == "quick" else 600
    obs = []
    for w in range(5):
        obs.append(dict(name=f"body_raises[{['Exception subclass','KeyboardInterrupt','SystemExit','CancelMutation','ValueError'][w]}]", func="body_raises", pre=f"which == {w}", timeout=T,
                        bounds="raised at 3 positions of an edit script, backup/output configuration, both formats"))
    for kind in range(4):
        obs.append(dict(name=f"save_fails[{['unserializable value','chart cannot be serialized','unencodable character (cp1252)','lone surrogate (utf-8)'][kind]}]", func="save_fails", pre=f"kind == {kind}", timeout=T,
                        bounds="backup/output configuration, both formats"))
    obs.append(dict(name="clash_refused", func="clash_refused", timeout=T,
                    bounds="backup name equal to the input name (with / without an output name) or to the output name: ValueError before anything is written; both formats, with / without an edit"))
    for ssc in (False, True):
        for op in range(0, 7):
            obs.append(dict(name=f"fs_fault[ssc={ssc},edit={op}]", func="fs_fault", pre=f"ssc == {ssc} and op == {op}", timeout=T,
                            bounds="fault at the k-th filesystem operation, k symbolic in 1..14, backup/output configuration; body edit: none / set / delete / add property, append chart + edit, in-place chart edit, chart removed"))
    return obs


def signature(ob, res):
    cex = res.get("cex") or {}
    if ob["func"] == "save_fails":
        return "save_fails:kind%s" % cex.get("kind")
    return ob["func"]


def replay(data):
    from vlib import xh
    return xh.replay("xh_C05", data)


def main(tier):
    return xhprop.main(PROP, tier, FILE, obligations(tier), FUNCTIONS, ASSUMPTIONS, OUTSIDE, signature,
                       bounds="5 exception classes x 3 positions; 4 save-failure kinds; fault index k in 1..14; x backup/output configurations x both formats")
