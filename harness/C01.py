"""C01 — SM serialize -> parse round trip (engine xh)."""
from vlib import xhprop

PROP = "C01"
FILE = "xh_C01.py"
FUNCTIONS = ["BaseSimfile.serialize", "BaseCharts.serialize", "SMChart.serialize", "SMSimfile._parse", "SMChart._from_msd / from_msd / blank",
             "SMSimfile.__eq__ / SMChart.__eq__", "item_property", "simfile.loads / _detect_ssc (autodetect obligation, real tokenizer, concrete values)"]
ASSUMPTIONS = [
    "escapes_real[...] obligations: exhaustive concrete enumeration with the REAL msdparser serializer and lexer (not solver-decided; the parameter-level obligations replace MSDParameter by a recorder and cannot see escaping)",
    "msdparser is the environment: MSDParameter is replaced by the recording StubParam; the contract it stands for is itself discharged for values of <= 1 (thorough: 2) characters by the lexer_lemma obligation (contract: str(p) parses back to p for string components outside "
    "the escaping gaps the property excludes; rendering a non-string component raises AttributeError like the real serializer)",
    "values that are only moved/compared: arbitrary Unicode strings of length <= 3 (or None); scanned strings (multi-value split, chart-field strip): one symbolic string per obligation",
    "keys: chosen by symbolic index from every upper-case literal in the repository's source plus two fresh keys",
]
OUTSIDE = ["character-level escaping (msdparser)", "strings longer than 3 (fields: 2)", "more than 3 properties / 2 charts per obligation"]


def obligations(tier):
    T = 90 if tier == "quick" else 900
    return [
        dict(name="selftest_strip", func="selftest_strip", file="xhlib.py", timeout=60, bounds="engine self-test: strip/rstrip identities, |s|<=3"),
        *[dict(name=f"props3[k0%8=={r}]", func="props3", pre=f"k0 % 8 == {r}", timeout=2 * T, bounds="3 properties: first key any literal-derived key (symbolic index), second from 8 keys, third a duplicate of the first or CREDIT; values any Unicode <=3 (first may be None), chart field <=2") for r in range(8)],
        dict(name="multi_value", func="multi_value", timeout=T, bounds="ATTACKS/DISPLAYBPM value symbolic <=3 or None, the other from 5 representatives"),
        *[dict(name=f"chart_field[{i}]", func="chart_field", pre=f"i == {i}", timeout=T, bounds=f"chart field {i} symbolic <=2 stripped, 0..2 extra components <=2, 1..2 charts") for i in range(6)],
        dict(name="chart_attr_edit", func="chart_attr_edit", timeout=T, bounds="blank simfile + blank chart, one field set by attribute"),
        *[dict(name=f"edit_step[op{i},k%2=={r}" + (f",pre_ser={ps}]" if ps is not None else "]"), func="edit_step",
               pre=f"op == {i} and k % 2 == {r}" + (f" and pre_ser == {ps}" if ps is not None else ""), timeout=T,
               bounds=f"edit operation {i} (of 15: incl. chart mapping reordered / fields assigned in another order; set/del by key, attribute, charts appended/removed/replaced/reversed, extra components assigned and edited in place, chart field by key) from a small pre-state that may already have been serialized once, symbolic key index (8 keys) and value <=3")
          for i in range(15) for r in range(2) for ps in ((False, True) if i in (8, 12, 13, 14) else (None,))],
        *[dict(name=f"autodetect[v{v},k%4=={r}]", func="autodetect", pre=f"v == {v} and k % 4 == {r}", timeout=T, bounds="first key symbolic index (not VERSION), concrete value incl. escapes, real tokenizer") for v in range(3) for r in range(4)],
        dict(name="blank_and_corpus", func="blank_and_corpus", timeout=T, bounds="SMSimfile.blank() and the SM corpus file"),
        *([dict(name="lexer_lemma[|v|<=1]", func="lexer_lemma", pre="len(v) <= 1", timeout=2 * T, bounds="dependency contract: str(MSDParameter(('K', v))) parses back to ('K', v) with the real serializer and lexer, any character outside the excluded gaps, |v| <= 1")]
          if tier == "quick" else
          [dict(name=f"lexer_lemma[|v|<=2,follow={f}]", func="lexer_lemma", pre=f"follow == {f}", timeout=T, bounds="dependency contract with the real serializer and lexer, |v| <= 2, outside the excluded gaps") for f in (False, True)]),
    ]


def signature(ob, res):
    cex = res.get("cex") or {}
    if ob["func"] == "props3" and cex.get("n0"):
        return "props3:none-value"
    if ob["func"] == "multi_value" and cex.get("none_value"):
        return "multi_value:none-value"
    return ob["func"]


def replay(data):
    from vlib import xh
    if data.get("func") == "ob_escapes":
        from harness import escconf
        return escconf.replay(data)
    return xh.replay("xh_C01", data)


def main(tier):
    from vlib import core
    from harness import escconf
    extra = core.run_obligations("harness.escconf", escconf.obligations("sm"))
    return xhprop.main(PROP, tier, FILE, obligations(tier), FUNCTIONS, ASSUMPTIONS, OUTSIDE, signature, extra_results=extra, extra_chars=(1 if tier == "thorough" else 0),
                       bounds="strings <=3 (fields <=2), <=3 properties, <=2 charts, keys from the literal-derived key set")
