"""C19 — directory and pack discovery finds exactly the right simfiles (CrossHair harness over the model filesystem)."""
import xhlib
from xhlib import ModelFS
import simfile
from simfile.dir import SimfileDirectory, SimfilePack, DuplicateSimfileError
from simfile._private import extensions
from msdparser import MSDParserError

LAST = None
PRINTABLE = "".join(chr(c) for c in range(32, 127))


def _ends(low, ext):
    n, m = len(low), len(ext)
    if n < m:
        return False
    for i in range(m):
        if low[n - m + i] != ext[i]:
            return False
    return True


def match_unit(suffix: str, stem: bool, image: bool) -> bool:
    """
    pre: len(suffix) <= 4
    pre: all(32 <= ord(ch) < 127 for ch in suffix)
    post: _
    """
    # classification unit: extensions.match on a symbolic suffix against an index-based oracle on the lower-cased name
    name = ("Song" if stem else "") + suffix
    exts = extensions.IMAGE if image else extensions.SIMFILE
    got = extensions.match(name, *exts)
    low = name.lower()
    exp = None
    for e in exts:
        if _ends(low, e):
            exp = e
            break
    return got == exp


REPS = ["b.sm", "B.SM", "c.sm", "b.ssc", "d.Ssc", "b.sm.old", "b.ssca", "sm", "b.png", "notes.txt"]
GOOD = "#TITLE:ok;\n"
STRAY = "junk #TITLE:ok;\n"


def _kind(name):
    low = name.lower()
    if _ends(low, ".ssc"):
        return "ssc"
    if _ends(low, ".sm"):
        return "sm"
    return None


def directory(i0: int, i1: int, i2: int, n: int, ignore_dup: bool, strict: bool, stray: bool, enc: bool, stray_sm: bool) -> bool:
    """
    pre: 0 <= i0 < len(REPS) and 0 <= i1 < len(REPS) and 0 <= i2 < len(REPS) and 0 <= n <= 3
    pre: i0 != i1 and i1 != i2 and i0 != i2
    post: _
    """
    global LAST
    xhlib.install_real()
    try:
        names = [REPS[i0], REPS[i1], REPS[i2]][:n]
        d = "/songs/pack/song"
        # stray text independently in the SSC files (and everything else) and in the SM files: the file that is opened decides
        files = {d + "/" + nm: (STRAY if (stray_sm if _kind(nm) == "sm" else stray) else GOOD) for nm in names}
        fs = ModelFS(files, dirs={"/songs", "/songs/pack", d}, listing={d: list(names)})
        sms = [nm for nm in names if _kind(nm) == "sm"]
        sscs = [nm for nm in names if _kind(nm) == "ssc"]
        dup = len(sms) > 1 or len(sscs) > 1
        try:
            sd = SimfileDirectory(d, filesystem=fs, ignore_duplicate=ignore_dup)
        except DuplicateSimfileError:
            return dup and not ignore_dup
        if dup and not ignore_dup:
            LAST = ("duplicate not reported", names)
            return False
        exp_sm = (d + "/" + sms[0]) if sms else None
        exp_ssc = (d + "/" + sscs[0]) if sscs else None
        if sd.sm_path != exp_sm or sd.ssc_path != exp_ssc or sd.simfile_path != (exp_ssc or exp_sm):
            LAST = ("paths", sd.sm_path, sd.ssc_path, names)
            return False
        kwargs = {"strict": strict}
        if enc:
            kwargs["encoding"] = "cp1252"
        n_open_before = len([l for l in fs.log if l[0] == "open"])
        try:
            sf = sd.open(**kwargs)
        except FileNotFoundError:
            return not sms and not sscs
        except MSDParserError:
            return (stray if sscs else stray_sm) and strict and bool(sms or sscs)
        if not sms and not sscs:
            return False
        if (stray if sscs else stray_sm) and strict:
            LAST = ("strict not passed through, or another file than the preferred one was loaded",)
            return False
        opens = [l for l in fs.log if l[0] == "open"][n_open_before:]
        if not opens or any(l[1] != (exp_ssc or exp_sm) for l in opens):
            LAST = ("opened", opens)
            return False
        if enc and [l[3] for l in opens] != ["cp1252"]:
            LAST = ("encoding not passed through", opens)
            return False
        if sf["TITLE"] != "ok" or type(sf).__name__ != ("SSCSimfile" if exp_ssc else "SMSimfile"):
            return False
        if dup:
            return True  # opendir has no ignore_duplicate option
        # opendir agrees with the object
        od, path = simfile.opendir(d, filesystem=fs, **kwargs)
        return od == sf and path == (exp_ssc or exp_sm)
    finally:
        xhlib.install_stub()


# pack entries: (name, kind) - kinds: dir with an .sm, dir with only an .SSC, dir with a near miss only, empty dir,
# loose simfile (a file, not a directory), directory whose simfile sits one level deeper, dir with both kinds
ENTRY = [("A", "sm"), ("B", "ssc"), ("C", "near"), ("D", "empty"), ("x.sm", "loose"), ("E", "nested"), ("F", "both"), ("g.png", "loosefile")]


def _pack_fs(idx, stray):
    p = "/songs/pack"
    files, dirs, listing = {}, {"/songs", p}, {p: []}
    text = STRAY if stray else GOOD
    for i in idx:
        name, kind = ENTRY[i]
        listing[p].append(name)
        q = p + "/" + name
        if kind in ("loose", "loosefile"):
            files[q] = text
            continue
        dirs.add(q)
        listing[q] = []
        if kind == "sm":
            listing[q] = ["song.SM", "bg.png"]
        elif kind == "ssc":
            listing[q] = ["s.Ssc"]
        elif kind == "near":
            listing[q] = ["song.sm.old", "sm", "x.ssca"]
        elif kind == "nested":
            listing[q] = ["inner"]
            dirs.add(q + "/inner")
            listing[q + "/inner"] = ["deep.sm"]
            files[q + "/inner/deep.sm"] = text
        elif kind == "both":
            listing[q] = ["t.sm", "t.ssc"]
        for nm in listing[q]:
            if nm != "inner":
                files[q + "/" + nm] = text
    return ModelFS(files, dirs=dirs, listing=listing), p


def pack(e0: int, e1: int, e2: int, n: int, strict: bool, stray: bool, enc: bool) -> bool:
    """
    pre: 0 <= e0 < len(ENTRY) and 0 <= e1 < len(ENTRY) and 0 <= e2 < len(ENTRY) and 0 <= n <= 3
    pre: e0 != e1 and e1 != e2 and e0 != e2
    post: _
    """
    global LAST
    xhlib.install_real()
    try:
        idx = [e0, e1, e2][:n]
        fs, p = _pack_fs(idx, stray)
        exp_dirs = [p + "/" + ENTRY[i][0] for i in idx if ENTRY[i][1] in ("sm", "ssc", "both")]
        exp_files = []
        for i in idx:
            name, kind = ENTRY[i]
            if kind == "sm":
                exp_files.append(p + "/" + name + "/song.SM")
            elif kind == "ssc":
                exp_files.append(p + "/" + name + "/s.Ssc")
            elif kind == "both":
                exp_files.append(p + "/" + name + "/t.ssc")
        sp = SimfilePack(p, filesystem=fs)
        if list(sp.simfile_dir_paths) != exp_dirs or sp.name != "pack":
            LAST = ("pack dirs", sp.simfile_dir_paths, exp_dirs)
            return False
        if [sd.simfile_path for sd in sp.simfile_dirs()] != exp_files:
            LAST = ("simfile paths", [sd.simfile_path for sd in sp.simfile_dirs()], exp_files)
            return False
        kwargs = {"strict": strict}
        if enc:
            kwargs["encoding"] = "cp1252"
        before = len(fs.log)
        try:
            got = list(simfile.openpack(p, filesystem=fs, **kwargs))
            raised = False
        except MSDParserError:
            raised = True
        if raised != (stray and strict and bool(exp_files)):
            LAST = ("openpack strictness", raised, stray, strict)
            return False
        if not raised:
            if [path for _, path in got] != exp_files or any(sf["TITLE"] != "ok" for sf, _ in got):
                LAST = ("openpack result", [path for _, path in got], exp_files)
                return False
            opens = [l for l in fs.log[before:] if l[0] == "open"]
            if [l[1] for l in opens] != exp_files:
                LAST = ("openpack opened", opens)
                return False
            if enc and any(l[3] != "cp1252" for l in opens):
                LAST = ("openpack dropped the encoding option", opens)
                return False
            # the pack object's own iterator agrees
            via = list(sp.simfiles(**kwargs))
            if [s for s, _ in got] != via:
                return False
        return True
    finally:
        xhlib.install_stub()
