"""C17 — SSC -> SM conversion applies the caller's policy to every SSC-only property (engine symx).

Solver variables: for every SSC-only property that is present, whether its trimmed value equals the field's default (a z3
Bool behind an EqStr object: `value.strip() == default` is decided by the solver); the behaviour configured for each
property kind is a lazily case-split choice (only kinds the conversion actually consults are split).  Presence patterns,
WARPS classes, templates and chart counts are solver-guided case splits."""
import copy
from fractions import Fraction

PROP = "C17"
MODS = ("simfile.convert", "simfile.sm", "simfile.ssc")
FUNCTIONS = ["simfile.convert.ssc_to_sm", "_convert", "_convert_warps", "_copy_properties", "_should_copy_property", "INVALID_PROPERTIES / INVALID_PROPERTY_BEHAVIORS / DEFAULT_PROPERTIES tables",
             "SMChart.__setitem__", "sm_to_ssc (round-trip clause)"]
ASSUMPTIONS = [
    "'trimmed value equals the field's default' is a solver variable per present SSC-only property; values are otherwise opaque unique strings that are only moved and compared",
    "the list of SSC-only keys per kind is regenerated from INVALID_PROPERTIES at run time; the field defaults are the harness's own table (the six non-empty values a blank SSC file carries; empty otherwise)",
    "WARPS: absent / empty / one well-formed non-empty list (a blank-only value is not claimed either way)",
]
OUTSIDE = ["chart keys the SM chart cannot hold and the table does not list (MUSIC, NOTES2, unknown keys) and any chart key under COPY_ANYWAY: known findings probed separately",
           "more than 2 charts", "presence patterns other than all / none / each single SSC-only property"]
# the documented default behaviour per property kind (the harness's own copy: the library's table is part of the code under test)
DEFAULT_BEH = {"SSC_VERSION": "IGNORE", "METADATA": "IGNORE", "FILE_PATH": "IGNORE", "GAMEPLAY_EVENT": "ERROR_UNLESS_DEFAULT", "TIMING_DATA": "ERROR_UNLESS_DEFAULT"}
BEH = ["COPY_ANYWAY", "IGNORE", "ERROR_UNLESS_DEFAULT", "ERROR", None]
KINDS = ["SSC_VERSION", "METADATA", "FILE_PATH", "GAMEPLAY_EVENT", "TIMING_DATA"]
# the field defaults (what a blank SSC file written by the editor contains for SSC-only fields; empty otherwise)
DEFAULTS = {"TIMESIGNATURES": "0.000=4=4", "TICKCOUNTS": "0.000=4", "COMBOS": "0.000=1", "SPEEDS": "0.000=1.000=0.000=0", "SCROLLS": "0.000=1.000", "LABELS": "0.000=Song Start"}
SIX = ["STEPSTYPE", "DESCRIPTION", "DIFFICULTY", "METER", "RADARVALUES", "NOTES"]


def _setup():
    from vlib import symx
    return symx, symx.load_shimmed(MODS)


def _eqstr(symx, key, default, cond):
    """opaque value for `key` whose trimmed form equals the field default iff the z3 Bool cond holds"""
    class _Stripped(str):
        def __eq__(self, other):
            if other != default:
                # compared with something else than the field's default: the trimmed value is then NOT equal to it on the
                # "is default" side of the split -> the policy oracle (which uses the right default) will disagree
                import z3
                return symx.SymBool(z3.BoolVal(False))
            return symx.SymBool(cond)

        def __ne__(self, other):
            r = self.__eq__(other)
            import z3
            return symx.SymBool(z3.Not(r.e))
        __hash__ = str.__hash__

    class EqStr(str):
        def strip(self, *a):
            return _Stripped(str(self))
    return EqStr("<value of %s>" % key)


class _LazyBehaviors(dict):
    """mapping PropertyType -> behaviour whose entries are chosen (solver-guided case split) when first consulted; every
    way of reading a mapping is covered (get / [] / in / iteration / keys / items / len / update-from)"""

    def __init__(self, symx, C, fixed, prefix="beh_"):
        super().__init__()
        self.symx, self.C, self.fixed, self.chosen, self.prefix = symx, C, fixed, {}, prefix

    def _name(self, kind):
        name = kind.name
        if name not in self.chosen:
            i = self.fixed[name] if name in self.fixed else self.symx.choose(self.prefix + name, len(BEH))
            self.chosen[name] = BEH[i]
        return self.chosen[name]

    def get_name(self, kindname):
        return self._name(self.C.PropertyType[kindname])

    def get(self, kind, default=None):
        b = self._name(kind)
        return default if b is None else self.C.InvalidPropertyBehavior[b]

    def __getitem__(self, kind):
        b = self._name(kind)
        if b is None:
            raise KeyError(kind)
        return self.C.InvalidPropertyBehavior[b]

    def __contains__(self, kind):
        return self._name(kind) is not None

    def keys(self):
        return [k for k in self.C.PropertyType if self._name(k) is not None]

    def __iter__(self):
        return iter(self.keys())

    def __len__(self):
        return len(self.keys())

    def items(self):
        return [(k, self[k]) for k in self.keys()]

    def values(self):
        return [self[k] for k in self.keys()]

    def copy(self):
        return dict(self.items())

    def __bool__(self):
        return len(self) > 0


def _tables(C, SM):
    sim = {k.name: list(v) for k, v in C.INVALID_PROPERTIES[SM.SMSimfile].items()}
    cht = {k.name: list(v) for k, v in C.INVALID_PROPERTIES[SM.SMChart].items()}
    return sim, cht


def _effective(chosen_name, kind, C):
    if chosen_name is not None:
        return chosen_name
    return DEFAULT_BEH[kind]


def ob_policy(pattern, which, fixed_first, fixed_tmpl=None, shard=None, budget_s=300):
    """the call returns an SM simfile obeying the policy, or raises InvalidPropertyException naming the first offending
    property (NotImplementedError for warps); nothing else; source and templates unmodified"""
    import z3
    symx, mods = _setup()
    C, SM, SSC = mods["simfile.convert"], mods["simfile.sm"], mods["simfile.ssc"]
    sim_tab, cht_tab = _tables(C, SM)
    blank = dict(DEFAULTS)
    sim_keys = [(k, kind) for kind in KINDS for k in sim_tab.get(kind, [])]
    cht_keys = [(k, kind) for kind in KINDS for k in cht_tab.get(kind, [])]

    def run():
        if shard is not None:   # (property order reversed?, two charts?): this obligation covers one quarter of the case splits
            symx.CTL.assume(z3.Int("rev") == shard[0], (z3.Int("ncharts") == 2) == bool(shard[1]))
        src = SSC.SSCSimfile(string="")
        cond = {}
        plain = [("TITLE", "t!"), ("ARTIST", "a!"), ("ZZFRESH", "z!"), ("BPMS", "0.000=120.000"), ("STOPS", "")]
        src["VERSION"] = _eqstr(symx, "VERSION", blank.get("VERSION", "") if False else "", z3.Bool("def_s_VERSION")) if pattern != "none" else "0.83"
        if pattern != "none":
            cond[("s", "VERSION")] = z3.Bool("def_s_VERSION")
        for k, v in plain[:2]:
            src[k] = v
        warps = symx.choose("warps", 5)  # absent / empty / well-formed / well-formed with a zero length / with a negative length
        rev = symx.choose("rev", 2) if pattern == "all" else 0   # properties in table order or in reverse order
        for i, (k, kind) in (list(enumerate(sim_keys))[::-1] if rev else list(enumerate(sim_keys))):
            if k == "VERSION":
                continue
            if k == "WARPS":
                if warps:
                    src[k] = ["", "4.000=2.000", "8.000=0.000", "12.000=-1.000,\n16.000=0.000"][warps - 1]
                continue
            present = pattern == "all" or (pattern == "one" and i == which)
            if present:
                c = z3.Bool("def_s_" + k)
                cond[("s", k)] = c
                src[k] = _eqstr(symx, k, blank.get(k) or "", c)
        for k, v in plain[2:]:
            src[k] = v
        ncharts = symx.choose("ncharts", 3)
        for n in range(ncharts):
            ch = SSC.SSCChart()
            for f in SIX[:5]:
                ch[f] = "%s%d!" % (f.lower(), n)
            for i, (k, kind) in (list(enumerate(cht_keys))[::-1] if rev else list(enumerate(cht_keys))):
                if k == "WARPS":
                    continue
                present = pattern == "all" or (pattern == "one" and n == 0 and i == which - len(sim_keys))
                if present:
                    c = z3.Bool("def_c%d_%s" % (n, k))
                    cond[(n, k)] = c
                    ch[k] = _eqstr(symx, k, blank.get(k) or "", c)
            ch["NOTES"] = "000%d" % n
            src.charts.append(ch)
        tmpl = symx.choose("tmpl", 3) if fixed_tmpl is None else fixed_tmpl  # no templates / templates with own properties and a chart / an EMPTY simfile template
        st, ct = None, None
        if tmpl == 1:
            st = SM.SMSimfile(string=""); st["TITLE"] = "template title"; st["GENRE"] = "g!"
            st.charts.append(SM.SMChart.blank())
            ct = SM.SMChart.from_msd(["tt", "td", "tf", "tm", "tr", "tn"])
        elif tmpl == 2:
            st = SM.SMSimfile(string="")
        snap = (list(src.items()), [list(c.items()) for c in src.charts],
                None if st is None else (list(st.items()), len(st.charts)), None if ct is None else list(ct.items()))
        beh = _LazyBehaviors(symx, C, {KINDS[0]: fixed_first} if fixed_first is not None else {})
        # ---- run
        outcome, result = "ok", None
        try:
            result = C.ssc_to_sm(src, simfile_template=st, chart_template=ct, invalid_property_behaviors=beh)
        except C.InvalidPropertyException as e:
            outcome, result = "invalid", str(e)
        except NotImplementedError:
            outcome = "notimpl"
        except symx.Unsupported:
            raise
        except Exception as e:
            if type(e).__name__ in ("Budget", "Prune", "Exhausted", "SolverUnknown"):
                raise
            if isinstance(e, KeyError) and any(_effective(beh.chosen.get(kind), kind, C) == "COPY_ANYWAY" for kind in KINDS):
                # known finding (named by the property): a chart key under COPY_ANYWAY ends in a bare KeyError; probed by ob_known
                raise symx.Prune()
            return False, ("unexpected exception", type(e).__name__, str(e)[:80])
        # ---- source and templates unmodified
        if (list(src.items()), [list(c.items()) for c in src.charts]) != snap[:2]:
            return False, ("source modified",)
        if st is not None and ((list(st.items()), len(st.charts)) != snap[2] or (ct is not None and list(ct.items()) != snap[3])):
            return False, ("template modified",)
        # ---- oracle: first offender in source order
        exp, offender = "ok", None
        if warps >= 2:
            exp = "notimpl"
        else:
            def scan(items, table, scope):
                for k, v in items:
                    kind = next((kd for kd in KINDS if k in table.get(kd, [])), None)
                    if kind is None:
                        continue
                    b = _effective(beh.get_name(kind), kind, C)
                    if b in ("COPY_ANYWAY", "IGNORE"):
                        continue
                    if b == "ERROR_UNLESS_DEFAULT":
                        c = cond.get((scope, k))
                        if c is None:
                            isdef = (v.strip() == (blank.get(k) or ""))
                        else:
                            isdef = symx.CTL.branch(c)
                        if isdef:
                            continue
                    return k
                return None
            offender = scan(src.items(), sim_tab, "s")
            if offender is None:
                for n, ch in enumerate(src.charts):
                    offender = scan(ch.items(), cht_tab, n)
                    if offender is not None:
                        break
            if offender is not None:
                exp = "invalid"
        if outcome != exp:
            return False, ("outcome", outcome, exp, offender, dict(beh.chosen))
        if outcome == "invalid":
            return (repr(offender) in result), ("exception names", offender, result[:60])
        if outcome == "notimpl":
            return True, ("warps refused",)
        # ---- returned simfile obeys the policy
        out = result
        if type(out) is not SM.SMSimfile or len(out.charts) != (1 if tmpl == 1 else 0) + ncharts:
            return False, ("result shape", type(out).__name__, len(out.charts))
        base = dict(st) if tmpl else dict(SM.SMSimfile.blank())
        want = dict(base)
        for k, v in src.items():
            kind = next((kd for kd in KINDS if k in sim_tab.get(kd, [])), None)
            if kind is None or _effective(beh.get_name(kind), kind, C) == "COPY_ANYWAY":
                want[k] = v
        if dict(out) != want:
            return False, ("simfile keys/values", sorted(set(dict(out)) ^ set(want)))
        for k in want:
            if k in src and want[k] is src[k] and out[k] is not src[k]:
                return False, ("value not the source's", k)
        for n, ch in enumerate(src.charts):
            oc = out.charts[(1 if tmpl == 1 else 0) + n]
            if type(oc) is not SM.SMChart or [oc[f] for f in SIX] != [ch[f] for f in SIX]:
                return False, ("chart fields", n)
            if list(oc.keys()) != SIX:
                return False, ("chart keys", list(oc.keys()))
            if ct is not None and oc is ct:
                return False, ("chart template shared",)
        if st is not None and (out is st or out.charts is st.charts):
            return False, ("template shared",)
        return True, ("policy", pattern, which)

    return symx.explore(run, budget_s=budget_s)


def ob_sequence(budget_s=200):
    """histories: a conversion's outcome depends only on its own arguments - after an earlier call with any single
    non-default behaviour (which may have raised), a call that leaves kinds unspecified uses the documented defaults"""
    symx, mods = _setup()
    C, SM, SSC = mods["simfile.convert"], mods["simfile.sm"], mods["simfile.ssc"]

    def source():
        src = SSC.SSCSimfile(string="")
        src["VERSION"] = "0.83"; src["TITLE"] = "t"; src["ORIGIN"] = "o!"; src["JACKET"] = "j.png"; src["SPEEDS"] = "0.000=2.000=1.000=0"; src["BPMS"] = "0.000=120.000"
        return src

    def outcome(beh):
        try:
            out = C.ssc_to_sm(source(), invalid_property_behaviors=beh)
            return ("ok", tuple(sorted(k for k in ("VERSION", "ORIGIN", "JACKET", "SPEEDS") if k in out)))
        except C.InvalidPropertyException as e:
            return ("invalid", str(e)[:40])

    def expected(choice):
        eff = {k: (choice.get(k) or DEFAULT_BEH[k]) for k in KINDS}
        kept = []
        for key, kind in (("VERSION", "SSC_VERSION"), ("ORIGIN", "METADATA"), ("JACKET", "FILE_PATH"), ("SPEEDS", "GAMEPLAY_EVENT")):
            b = eff[kind]
            if b == "COPY_ANYWAY":
                kept.append(key)
            elif b == "IGNORE":
                continue
            else:  # all four values are non-default
                return ("invalid", key)
        return ("ok", tuple(sorted(kept)))

    def run():
        # earlier call: one kind set to one behaviour
        k0 = KINDS[symx.choose("k0", len(KINDS))]; b0 = BEH[symx.choose("b0", 4)]
        outcome({C.PropertyType[k0]: C.InvalidPropertyBehavior[b0]})
        # later call: a mapping that specifies at most one (other) kind
        k1 = symx.choose("k1", len(KINDS) + 1)
        choice = {}
        if k1 < len(KINDS):
            choice[KINDS[k1]] = BEH[symx.choose("b1", 4)]
        got = outcome({C.PropertyType[k]: C.InvalidPropertyBehavior[b] for k, b in choice.items()})
        exp = expected(choice)
        if got[0] != exp[0]:
            return False, ("second call", got, exp, "after", k0, b0)
        if got[0] == "ok":
            return got[1] == exp[1], ("second call keys", got[1], exp[1], "after", k0, b0)
        return repr(exp[1]) in got[1], ("second call names", got[1], exp[1])
    return symx.explore(run, budget_s=budget_s)


def ob_roundtrip(budget_s=120):
    """ssc_to_sm(sm_to_ssc(sm)) equals the original on every original property and chart (SM sources without SSC-only keys)"""
    symx, mods = _setup()
    C, SM, SSC = mods["simfile.convert"], mods["simfile.sm"], mods["simfile.ssc"]

    def run():
        sm = SM.SMSimfile.blank() if symx.choose("base", 2) else SM.SMSimfile(string="")
        sm["OFFSET"] = "0.100"; sm["BPMS"] = "0.000=120.000,\n4.000=60.000"; sm["STOPS"] = ["", "1.000=0.500"][symx.choose("stops", 2)]
        if symx.choose("anim", 2):
            sm["ANIMATIONS"] = "x!"
        sm["ZZFRESH"] = "z!"
        for n in range(symx.choose("ncharts", 3)):
            sm.charts.append(SM.SMChart.from_msd(["st%d" % n, "d", "Hard", "9", "0,0", "000%d" % n]))
        ssc = C.sm_to_ssc(sm)
        back = C.ssc_to_sm(ssc, simfile_template=SM.SMSimfile(string="") if symx.choose("tmpl", 2) else None)
        for k, v in sm.items():
            if back.get(k) != v:
                return False, ("property", k, back.get(k), v)
        if len(back.charts) != len(sm.charts) or any(a != b for a, b in zip(back.charts, sm.charts)):
            return False, ("charts",)
        return True, ("roundtrip",)
    return symx.explore(run, budget_s=budget_s)


KNOWN = [("MUSIC", "x.ogg"), ("NOTES2", "0000"), ("ZZFRESH", "z"), ("CREDIT", "c")]


def ob_mirror(w, where, budget_s=120):
    """a chart-level SSC-only property whose non-default value is EQUAL to the value the simfile (or the simfile template) holds
    under the same key: it is still judged by its own default, i.e. refused under ERROR_UNLESS_DEFAULT / ERROR, left out under
    IGNORE; the behaviour of its kind is a solver-guided choice (4 values + unspecified)"""
    import z3
    symx, mods = _setup()
    C, SM, SSC = mods["simfile.convert"], mods["simfile.sm"], mods["simfile.ssc"]
    sim_tab, cht_tab = _tables(C, SM)
    cht_keys = [(k, kind) for kind in KINDS for k in cht_tab.get(kind, []) if k != "WARPS"]
    sim_invalid = {k for v in sim_tab.values() for k in v}

    def run():
        k, kind = cht_keys[w]
        if k in sim_invalid:
            return True, ("not storable on SM simfile level", k)
        value = "7.000=7.000" if k not in ("CREDIT", "CHARTNAME", "CHARTSTYLE", "MUSIC") else "mirror!"
        src = SSC.SSCSimfile(string=""); src["VERSION"] = "0.83"; src["TITLE"] = "t!"
        st = None
        if where == "source":
            src[k] = value
        else:
            st = SM.SMSimfile(string=""); st["TITLE"] = "template title"; st[k] = value
        ch = SSC.SSCChart()
        for f in SIX[:5]:
            ch[f] = f.lower() + "!"
        ch[k] = value
        ch["NOTES"] = "0000"
        src.charts.append(ch)
        bi = symx.choose("beh", 5)          # 4 behaviours + unspecified
        beh = {} if bi == 4 else {C.PropertyType[kind]: C.InvalidPropertyBehavior[BEH[bi]]}
        eff = DEFAULT_BEH[kind] if bi == 4 else BEH[bi]
        try:
            out = C.ssc_to_sm(src, simfile_template=st, invalid_property_behaviors=beh)
            outcome = "ok"
        except C.InvalidPropertyException as e:
            outcome, out = "invalid", str(e)
        except KeyError:
            if eff == "COPY_ANYWAY":
                raise symx.Prune()     # known finding (named by the property): chart key under COPY_ANYWAY ends in a bare KeyError
            return False, ("bare KeyError", k, eff)
        want = "invalid" if eff in ("ERROR_UNLESS_DEFAULT", "ERROR") else "ok"
        if outcome != want:
            return False, ("mirror", k, eff, outcome, want)
        if outcome == "invalid":
            return repr(k) in out, ("exception names", k, out[:60])
        return True, ("mirror ok", k, eff)
    return symx.explore(run, budget_s=budget_s)


def ob_known(i, budget_s=60):
    """known findings named by the property: chart keys the SM chart cannot hold end in a bare KeyError"""
    symx, mods = _setup()
    C, SM, SSC = mods["simfile.convert"], mods["simfile.sm"], mods["simfile.ssc"]

    def run():
        src = SSC.SSCSimfile(string=""); src["VERSION"] = "0.83"; src["TITLE"] = "t"
        ch = SSC.SSCChart.blank()
        k, v = KNOWN[i]
        ch[k] = v
        src.charts.append(ch)
        beh = {C.PropertyType.METADATA: C.InvalidPropertyBehavior.COPY_ANYWAY} if k == "CREDIT" else {}
        try:
            C.ssc_to_sm(src, invalid_property_behaviors=beh)
        except (C.InvalidPropertyException, NotImplementedError):
            return True, ("refused properly",)
        except Exception as e:
            return False, ("bare exception", type(e).__name__, k)
        return True, ("converted",)
    return symx.explore(run, budget_s=budget_s)


def obligations(tier):
    from vlib import symx
    mods = symx.load_shimmed(MODS)
    C, SM = mods["simfile.convert"], mods["simfile.sm"]
    sim_tab, cht_tab = _tables(C, SM)
    nsim = sum(len(v) for v in sim_tab.values()); ncht = sum(len(v) for v in cht_tab.values())
    obs = []
    b = 400 if tier == "quick" else 3000
    for first in range(5):
      for tm in range(3):
        if tier == "quick" and tm != 0 and first != 4:
            continue   # quick: every SSC_VERSION behaviour without templates, and the three template variants with the behaviour unspecified
        for sh in ((0, 0), (0, 1), (1, 0), (1, 1)):
            obs.append(dict(name=f"policy[all present, SSC_VERSION behaviour={BEH[first]}, templates={tm}, reversed={sh[0]}, two charts={sh[1]}]", func="ob_policy", args=("all", 0, first, tm, sh), budget_s=b,
                            bounds="every SSC-only simfile/chart property present with symbolic default-ness; behaviours of the other four kinds chosen lazily over 4 values + unspecified; WARPS 3 classes; 0..2 charts; templates on/off (split by property order and chart count)"))
    obs.append(dict(name="policy[none present]", func="ob_policy", args=("none", 0, None), budget_s=b, bounds="no SSC-only property besides VERSION/WARPS"))
    for w in (range(nsim + ncht) if tier != "quick" else list(range(0, nsim + ncht, 3))):
        obs.append(dict(name=f"policy[only SSC-only property #{w} present]", func="ob_policy", args=("one", w, None), budget_s=b, bounds="exactly one SSC-only property present (index into the regenerated tables)"))
    obs.append(dict(name="sequence of two conversions", func="ob_sequence", args=(), budget_s=b, bounds="earlier call with one (kind, behaviour) pair out of 5x4, later call with at most one specified kind"))
    obs.append(dict(name="roundtrip sm->ssc->sm", func="ob_roundtrip", args=(), budget_s=b, bounds="blank/empty SM base, STOPS empty/non-empty, ANIMATIONS alias, 0..2 charts, template on/off"))
    for w in range(ncht - (1 if any("WARPS" in v for v in cht_tab.values()) else 0)):
        for where in ("source", "template"):
            obs.append(dict(name=f"mirror[chart SSC-only property #{w} equals the {where}'s value]", func="ob_mirror", args=(w, where), budget_s=60,
                            bounds="one chart-level SSC-only property (index into the regenerated table) with a non-default value equal to the simfile-level value of the same key (source or simfile template); behaviour of its kind: 4 values + unspecified"))
    for i in range(len(KNOWN)):
        obs.append(dict(name=f"known[{KNOWN[i][0]}]", func="ob_known", args=(i,), budget_s=60, bounds="dedicated probe of a known finding"))
    return obs


def signature(ob, res):
    if ob["func"] == "ob_known":
        return "known:" + KNOWN[ob["args"][0]][0]
    return ob["func"] + ":" + str(res.get("info"))[:60]


def replay(data):
    import simfile
    from simfile import convert as C
    from simfile.sm import SMSimfile, SMChart
    from simfile.ssc import SSCSimfile, SSCChart
    if data["func"] == "ob_known":
        k, v = KNOWN[data["args"][0]]
        src = SSCSimfile(string=""); src["VERSION"] = "0.83"; src["TITLE"] = "t"
        ch = SSCChart.blank(); ch[k] = v; src.charts.append(ch)
        beh = {C.PropertyType.METADATA: C.InvalidPropertyBehavior.COPY_ANYWAY} if k == "CREDIT" else {}
        try:
            C.ssc_to_sm(src, invalid_property_behaviors=beh)
        except (C.InvalidPropertyException, NotImplementedError):
            return False, "refused properly"
        except Exception as e:
            return True, f"ssc_to_sm with chart key {k} raises bare {type(e).__name__}"
        return False, "converted"
    if data["func"] == "ob_mirror":
        m = data["model"] or {}
        w, where = data["args"]
        sim_tab = {k.name: list(v) for k, v in C.INVALID_PROPERTIES[SMSimfile].items()}
        cht_tab = {k.name: list(v) for k, v in C.INVALID_PROPERTIES[SMChart].items()}
        cht_keys = [(k, kind) for kind in KINDS for k in cht_tab.get(kind, []) if k != "WARPS"]
        k, kind = cht_keys[w]
        value = "7.000=7.000" if k not in ("CREDIT", "CHARTNAME", "CHARTSTYLE", "MUSIC") else "mirror!"
        src = SSCSimfile(string=""); src["VERSION"] = "0.83"; src["TITLE"] = "t!"
        st = None
        if where == "source":
            src[k] = value
        else:
            st = SMSimfile(string=""); st["TITLE"] = "template title"; st[k] = value
        ch = SSCChart()
        for f in SIX[:5]:
            ch[f] = f.lower() + "!"
        ch[k] = value; ch["NOTES"] = "0000"
        src.charts.append(ch)
        bi = int(Fraction(m.get("beh", "4")))
        beh = {} if bi == 4 else {C.PropertyType[kind]: C.InvalidPropertyBehavior[BEH[bi]]}
        eff = DEFAULT_BEH[kind] if bi == 4 else BEH[bi]
        try:
            C.ssc_to_sm(src, simfile_template=st, invalid_property_behaviors=beh)
            outcome = "ok"
        except C.InvalidPropertyException as e:
            outcome = "invalid" if repr(k) in str(e) else "invalid but names another property: %s" % e
        except KeyError:
            return eff != "COPY_ANYWAY", "bare KeyError"
        want = "invalid" if eff in ("ERROR_UNLESS_DEFAULT", "ERROR") else "ok"
        return outcome != want, f"chart {k}={value!r} equal to the {where}'s {k}, behaviour of {kind} = {eff}: outcome {outcome}, documented {want}"
    if data["func"] == "ob_sequence":
        m = data["model"] or {}
        gi = lambda k: int(Fraction(m.get(k, "0")))
        def source():
            src = SSCSimfile(string="")
            src["VERSION"] = "0.83"; src["TITLE"] = "t"; src["ORIGIN"] = "o!"; src["JACKET"] = "j.png"; src["SPEEDS"] = "0.000=2.000=1.000=0"; src["BPMS"] = "0.000=120.000"
            return src
        def outcome(beh):
            try:
                out = C.ssc_to_sm(source(), invalid_property_behaviors=beh)
                return ("ok", tuple(sorted(k for k in ("VERSION", "ORIGIN", "JACKET", "SPEEDS") if k in out)))
            except C.InvalidPropertyException as e:
                return ("invalid", str(e)[:40])
        choice = {}
        if gi("k1") < len(KINDS):
            choice = {C.PropertyType[KINDS[gi("k1")]]: C.InvalidPropertyBehavior[BEH[gi("b1")]]}
        fresh = subprocess_outcome(choice)
        outcome({C.PropertyType[KINDS[gi("k0")]]: C.InvalidPropertyBehavior[BEH[gi("b0")]]})
        got = outcome(choice)
        return got != fresh, f"after a call with {KINDS[gi('k0')]}={BEH[gi('b0')]}, ssc_to_sm(behaviours={ {k.name: v.name for k, v in choice.items()} }) gives {got}; in a fresh interpreter it gives {fresh}"
    if data["func"] == "ob_roundtrip":
        m = data["model"] or {}
        gi = lambda k: int(Fraction(m.get(k, "0")))
        sm = SMSimfile.blank() if gi("base") else SMSimfile(string="")
        sm["OFFSET"] = "0.100"; sm["BPMS"] = "0.000=120.000,\n4.000=60.000"; sm["STOPS"] = ["", "1.000=0.500"][gi("stops")]
        if gi("anim"):
            sm["ANIMATIONS"] = "x!"
        sm["ZZFRESH"] = "z!"
        for n in range(gi("ncharts")):
            sm.charts.append(SMChart.from_msd(["st%d" % n, "d", "Hard", "9", "0,0", "000%d" % n]))
        back = C.ssc_to_sm(C.sm_to_ssc(sm), simfile_template=SMSimfile(string="") if gi("tmpl") else None)
        bad = any(back.get(k) != v for k, v in sm.items()) or list(back.charts) != list(sm.charts)
        return bad, f"sm={dict(sm)} back={dict(back)}"
    # policy: rebuild concretely from the model
    m = data["model"] or {}
    pattern, which, fixed_first = data["args"][:3]
    fixed_tmpl = data["args"][3] if len(data["args"]) > 3 else None
    gi = lambda k, d=0: int(Fraction(m.get(k, str(d))))
    gb = lambda k: str(m.get(k, "False")) in ("True", "1")
    sim_tab = {k.name: list(v) for k, v in C.INVALID_PROPERTIES[SMSimfile].items()}
    cht_tab = {k.name: list(v) for k, v in C.INVALID_PROPERTIES[SMChart].items()}
    blank = dict(DEFAULTS)
    sim_keys = [(k, kind) for kind in KINDS for k in sim_tab.get(kind, [])]
    cht_keys = [(k, kind) for kind in KINDS for k in cht_tab.get(kind, [])]
    val = lambda k, isdef: (" " + (blank.get(k) or "") + " ") if isdef else "non-default!"
    src = SSCSimfile(string="")
    src["VERSION"] = val("VERSION", gb("def_s_VERSION")) if pattern != "none" else "0.83"
    src["TITLE"] = "t!"; src["ARTIST"] = "a!"
    warps = gi("warps")
    rev = gi("rev") if pattern == "all" else 0
    for i, (k, kind) in (list(enumerate(sim_keys))[::-1] if rev else list(enumerate(sim_keys))):
        if k == "VERSION":
            continue
        if k == "WARPS":
            if warps:
                src[k] = ["", "4.000=2.000", "8.000=0.000", "12.000=-1.000,\n16.000=0.000"][warps - 1]
            continue
        if pattern == "all" or (pattern == "one" and i == which):
            src[k] = val(k, gb("def_s_" + k))
    src["ZZFRESH"] = "z!"; src["BPMS"] = "0.000=120.000"; src["STOPS"] = ""
    for n in range(gi("ncharts")):
        ch = SSCChart()
        for f in SIX[:5]:
            ch[f] = "%s%d!" % (f.lower(), n)
        for i, (k, kind) in (list(enumerate(cht_keys))[::-1] if rev else list(enumerate(cht_keys))):
            if k == "WARPS":
                continue
            if pattern == "all" or (pattern == "one" and n == 0 and i == which - len(sim_keys)):
                ch[k] = val(k, gb("def_c%d_%s" % (n, k)))
        ch["NOTES"] = "000%d" % n
        src.charts.append(ch)
    beh = {}
    for kind in KINDS:
        i = fixed_first if (kind == KINDS[0] and fixed_first is not None) else (gi("beh_" + kind, 4))
        if BEH[i] is not None:
            beh[C.PropertyType[kind]] = C.InvalidPropertyBehavior[BEH[i]]
    st = ct = None
    tm = gi("tmpl") if fixed_tmpl is None else fixed_tmpl
    if tm == 1:
        st = SMSimfile(string=""); st["TITLE"] = "template title"; st["GENRE"] = "g!"; st.charts.append(SMChart.blank())
        ct = SMChart.from_msd(["tt", "td", "tf", "tm", "tr", "tn"])
    elif tm == 2:
        st = SMSimfile(string="")
    eff = lambda kind: beh[C.PropertyType[kind]].name if C.PropertyType[kind] in beh else DEFAULT_BEH[kind]

    def scan(items, table):
        for k, v in items:
            kind = next((kd for kd in KINDS if k in table.get(kd, [])), None)
            if kind is None or eff(kind) in ("COPY_ANYWAY", "IGNORE"):
                continue
            if eff(kind) == "ERROR_UNLESS_DEFAULT" and v.strip() == (blank.get(k) or ""):
                continue
            return k
        return None
    exp, offender = "ok", None
    if warps >= 2:
        exp = "notimpl"
    else:
        offender = scan(src.items(), sim_tab)
        if offender is None:
            for ch in src.charts:
                offender = scan(ch.items(), cht_tab)
                if offender is not None:
                    break
        if offender is not None:
            exp = "invalid"
    try:
        out = C.ssc_to_sm(src, simfile_template=st, chart_template=ct, invalid_property_behaviors=beh)
        got = "ok"
    except C.InvalidPropertyException as e:
        got, out = "invalid", str(e)
    except NotImplementedError:
        got, out = "notimpl", None
    except Exception as e:
        if isinstance(e, KeyError) and any(eff(k) == "COPY_ANYWAY" for k in KINDS):
            return False, "known finding: chart key under COPY_ANYWAY -> KeyError"
        return True, f"ssc_to_sm raises {type(e).__name__}: {e}; behaviours={beh}"
    if got != exp:
        return True, f"outcome {got}, policy says {exp} (first offender {offender}); behaviours={ {k.name: v.name for k, v in beh.items()} }; source={dict(src)}"
    if got == "invalid":
        return repr(offender) not in out, f"exception {out!r} should name {offender}"
    if got == "ok":
        base = dict(st) if st is not None else dict(SMSimfile.blank())
        want = dict(base)
        for k, v in src.items():
            kind = next((kd for kd in KINDS if k in sim_tab.get(kd, [])), None)
            if kind is None or eff(kind) == "COPY_ANYWAY":
                want[k] = v
        if dict(out) != want:
            return True, f"result keys differ: {sorted(set(dict(out)) ^ set(want))}; template given: {st is not None}"
        off = len(st.charts) if st is not None else 0
        for n, ch in enumerate(src.charts):
            if [out.charts[off + n][f] for f in SIX] != [ch[f] for f in SIX]:
                return True, f"chart {n} fields differ"
    return False, "conforms"


def subprocess_outcome(choice):
    """the same later call made first thing in a fresh interpreter (no earlier call)"""
    import subprocess, sys, json, os
    code = (
        "import warnings; warnings.filterwarnings('ignore')\n"
        "import json, sys\n"
        "from simfile import convert as C\nfrom simfile.ssc import SSCSimfile\n"
        "src = SSCSimfile(string='')\n"
        "src['VERSION']='0.83'; src['TITLE']='t'; src['ORIGIN']='o!'; src['JACKET']='j.png'; src['SPEEDS']='0.000=2.000=1.000=0'; src['BPMS']='0.000=120.000'\n"
        "beh = {C.PropertyType[k]: C.InvalidPropertyBehavior[v] for k, v in json.loads(sys.argv[1]).items()}\n"
        "try:\n"
        "    out = C.ssc_to_sm(src, invalid_property_behaviors=beh)\n"
        "    print(json.dumps(['ok', sorted(k for k in ('VERSION','ORIGIN','JACKET','SPEEDS') if k in out)]))\n"
        "except C.InvalidPropertyException as e:\n"
        "    print(json.dumps(['invalid', str(e)[:40]]))\n")
    env = dict(os.environ)
    if os.environ.get("VERIF_REPO"):
        env["PYTHONPATH"] = os.environ["VERIF_REPO"]
    r = subprocess.run([sys.executable, "-c", code, json.dumps({k.name: v.name for k, v in choice.items()})], capture_output=True, text=True, env=env)
    o = json.loads(r.stdout.strip().splitlines()[-1])
    return (o[0], tuple(o[1]) if o[0] == "ok" else o[1])


def main(tier):
    from vlib import core
    chk = core.Check(PROP, tier, "harness." + PROP, FUNCTIONS,
                     bounds="all 5^5 behaviour mappings (4 values + unspecified per kind) x default-ness of every present SSC-only property (symbolic) x presence patterns {all, none, each single} x WARPS {absent, empty, list} x 0..2 charts x templates on/off",
                     assumptions=ASSUMPTIONS, outside=OUTSIDE)
    chk.add_results(core.run_obligations("harness." + PROP, obligations(tier)))
    return chk.finish(signature)
