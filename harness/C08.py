"""C08 — notes written to note data read back identically, in canonical form (engine symx; partial)."""
import math
from fractions import Fraction

PROP = "C08"
MODS = ("simfile.timing", "simfile.notes")
FUNCTIONS = ["NoteData.from_notes (push_row, push_measure, groupby player/measure/row, LCM of denominators)", "NoteData.__iter__", "NoteData._iter_measure",
             "NoteData._extract_keysound_indices", "NoteData._get_columns", "Note.__str__"]
ASSUMPTIONS = [
    "floats built from pinned (concrete) values are computed in IEEE doubles (symx.FLOAT_FAITHFUL); the repository's own from_notes uses no floats",
    "beats are numerator/denominator with a symbolic integer numerator and a denominator chosen per note from a concrete set; "
    "range() bounds and row indices force the solver to pin every position, so along a path the produced text is concrete "
    "(the solver prunes unsorted/duplicate inputs and decides the row/denominator arithmetic)",
    "keysound indices are symbolic integers rendered as token strings",
]
OUTSIDE = ["more than 3 notes (quick: 2)", "beats at or beyond 8 (two measures) except the single-note family with a symbolic measure index <= 50",
           "denominators outside the listed set", "text scanning of the decoder over symbolic characters"]
KINDS = ["TAP", "HOLD_HEAD", "TAIL", "MINE"]


def _setup():
    from vlib import symx
    symx.FLOAT_FAITHFUL = True   # every position is pinned along a path here, so concrete floats can be IEEE-faithful
    return symx, symx.load_shimmed(MODS)


def _parse_layout(text):
    """independent reading of the produced text: list of players, each a list of measures, each a list of row strings"""
    players = []
    for sec in text.split("&"):
        measures = []
        for ms in sec.split(","):
            rows = [r for r in ms.split("\n") if r != ""]
            measures.append(rows)
        players.append(measures)
    return players


def ob_roundtrip(dens, ncols, players, maxbeat, with_ks, budget_s=200):
    """from_notes(stream) iterated gives the stream back; .columns; rows per measure = 4*lcm(reduced denominators); all
    measures up to the last present; skipped players blank; rebuilding from its own notes reproduces the text"""
    import z3
    symx, mods = _setup()
    T = mods["simfile.timing"]; N = mods["simfile.notes"]
    n = len(dens)

    def run():
        S = symx.CTL
        nums = [z3.Int(f"n{i}") for i in range(n)]
        pls = [z3.Int(f"pl{i}") for i in range(n)]
        cols = []
        for i in range(n):
            S.assume(nums[i] >= 0, nums[i] < maxbeat * dens[i], pls[i] >= 0, pls[i] < players)
        for i in range(n):
            cols.append(symx.choose(f"c{i}", ncols))
        for i in range(1, n):
            a, b = nums[i - 1] * dens[i], nums[i] * dens[i - 1]  # beat(i-1) vs beat(i), cross-multiplied
            S.assume(z3.Or(pls[i] > pls[i - 1], z3.And(pls[i] == pls[i - 1], z3.Or(b > a, z3.And(b == a, z3.Int(f"c{i}") > z3.Int(f"c{i-1}"))))))
        symx.require_feasible()
        notes, meta = [], []
        for i in range(n):
            kind = KINDS[i % len(KINDS)]
            ks = z3.Int(f"ks{i}") if (with_ks == "all" or (with_ks and i % 2 == 0)) else None
            if ks is not None:
                S.assume(ks >= 0)
            beat = T.Beat(symx.FracShim._make(z3.ToReal(nums[i]) / dens[i], (nums[i], dens[i])))
            notes.append(N.Note(beat=beat, column=cols[i], note_type=N.NoteType[kind], player=symx.SymInt(pls[i]) if players > 1 else 0,
                                keysound_index=symx.SymInt(ks) if ks is not None else None))
            meta.append((nums[i], dens[i], cols[i], kind, pls[i], ks))
        nd = N.NoteData.from_notes(notes, ncols)
        if nd.columns != ncols:
            return False, ("columns", nd.columns)
        back = list(nd)
        if len(back) != n:
            return False, ("count", len(back), str(nd)[:60])
        conds = []
        for a, (num, den, col, kind, pl, ks) in zip(back, meta):
            if a.column != col or a.note_type is not N.NoteType[kind] or (a.keysound_index is None) != (ks is None):
                return False, ("field", str(nd)[:60])
            conds.append(symx.bterm(a.beat == symx.FracShim._make(z3.ToReal(num) / den, (num, den))))
            conds.append(symx.term_of(a.player) == (pl if players > 1 else 0) if symx.is_term(symx.term_of(a.player)) or players > 1 else z3.BoolVal(a.player == 0))
            if ks is not None:
                conds.append(symx.term_of(a.keysound_index) == ks)
        # canonical form, read independently from the text
        text = str(nd)
        lay = _parse_layout(text)
        # positions are pinned on this path: evaluate them in the current model
        r = S.check()
        if r != z3.sat:
            raise symx.Unsupported("no model for layout check")
        mdl = S.solver.model()
        val = lambda t: mdl.eval(t, model_completion=True).as_long()
        conc = [(val(pl) if players > 1 else 0, Fraction(val(num), den)) for (num, den, col, kind, pl, ks) in meta]
        # pin: the layout facts below are only claimed for the pinned values -> add them to the path condition
        for (num, den, col, kind, pl, ks), (p, b) in zip(meta, conc):
            if not S.branch(num == b.numerator * (den // b.denominator)):
                raise symx.Prune()
            if players > 1 and not S.branch(pl == p):
                raise symx.Prune()
        last_player = max(p for p, _ in conc)
        if len(lay) != last_player + 1:
            return False, ("player sections", len(lay), last_player + 1)
        for p in range(last_player + 1):
            mine = [b for pp, b in conc if pp == p]
            want_measures = (int(max(mine) // 4) + 1) if mine else 1
            if len(lay[p]) != want_measures:
                return False, ("measures", p, len(lay[p]), want_measures)
            for m in range(want_measures):
                inm = [b for b in mine if int(b // 4) == m]
                q = 1
                for b in inm:
                    q = q * b.denominator // math.gcd(q, b.denominator)
                if len(lay[p][m]) != 4 * q:
                    return False, ("rows", p, m, len(lay[p][m]), 4 * q)
        # stable: rebuilding from its own notes reproduces the text
        again = str(N.NoteData.from_notes(back, ncols))
        if symx.canon_text(again) != symx.canon_text(text):
            return False, ("unstable", text[:40], again[:40])
        return (z3.And(*conds) if conds else True), ("roundtrip", dens)
    return symx.explore(run, budget_s=budget_s)


def ob_far_measure(den, ncols, budget_s=200):
    """one note with a symbolic measure index up to 50"""
    import z3
    symx, mods = _setup()
    T = mods["simfile.timing"]; N = mods["simfile.notes"]

    def run():
        num = symx.fresh_int("n0", 0, 4 * 51 * den - 1)
        col = symx.choose("c0", ncols)
        ks = symx.fresh_int("ks0", 0, None)
        note = N.Note(beat=T.Beat(symx.FracShim._make(z3.ToReal(num) / den, (num, den))), column=col, note_type=N.NoteType.TAP, keysound_index=symx.SymInt(ks))
        nd = N.NoteData.from_notes([note], ncols)
        back = list(nd)
        if len(back) != 1 or back[0].column != col or back[0].keysound_index is None:
            return False, ("far", str(nd)[:40])
        return z3.And(symx.bterm(back[0].beat == note.beat), symx.term_of(back[0].keysound_index) == ks), ("far", den)
    return symx.explore(run, budget_s=budget_s)


def ob_empty(ncols, budget_s=30):
    """an empty stream gives one blank measure (4 rows of zeros) with the requested column count"""
    symx, mods = _setup()
    N = mods["simfile.notes"]

    def run():
        try:
            nd = N.NoteData.from_notes([], ncols)
        except Exception as e:
            return False, ("empty stream raises", type(e).__name__)
        ok = nd.columns == ncols and list(nd) == [] and _parse_layout(str(nd)) == [[["0" * ncols] * 4]]
        return ok, ("empty", ncols, str(nd))
    return symx.explore(run, budget_s=budget_s)


def obligations(tier):
    obs = []
    if tier == "quick":
        singles = [1, 2, 3, 4, 6, 7, 8, 11, 12, 13, 16, 32, 48]
        pairs = [(1, 1), (2, 3), (4, 6), (3, 4), (3, 7), (48, 5)]
        b = 200
    else:
        singles = [1, 2, 3, 4, 5, 6, 7, 8, 9, 11, 12, 13, 16, 32, 48, 64, 96, 192]
        pairs = [(1, 1), (2, 3), (4, 6), (3, 4), (8, 12), (5, 7), (3, 7), (5, 9), (16, 48), (48, 5), (48, 7), (16, 5), (2, 2), (4, 4)]
        b = 3000
    for d in singles:
        obs.append(dict(name=f"roundtrip 1 note /{d}", func="ob_roundtrip", args=((d,), 2, 1, 8, True), budget_s=b, bounds=f"numerator 0..{8*d-1} over {d}, 2 columns, keysound symbolic"))
    obs.append(dict(name="roundtrip 1 note /4 3 players", func="ob_roundtrip", args=((4,), 2, 3, 4, True), budget_s=b, bounds="player 0..2 symbolic (skipped players)"))
    for ds in pairs:
        obs.append(dict(name=f"roundtrip 2 notes /{ds}", func="ob_roundtrip", args=(ds, 2, 1, (2 if max(ds) >= 48 else 4) if tier == "quick" else (4 if max(ds) >= 48 else 8), False), budget_s=b,
                        bounds=f"two notes, denominators {ds}, beats in [0,{4 if tier == 'quick' else 8}), sorted unique positions"))
    obs.append(dict(name="roundtrip 2 notes /(1,2) 2 players", func="ob_roundtrip", args=((1, 2), 2, 2, 4, True), budget_s=b, bounds="two notes, players 0..1 symbolic"))
    obs.append(dict(name="roundtrip 2 notes /(1,2) all keysounded 3 columns", func="ob_roundtrip", args=((1, 2), 3, 1, 2, "all"), budget_s=b,
                    bounds="two notes, both with a symbolic keysound index (also on one row, also on the very first row), 3 columns"))
    obs.append(dict(name="roundtrip 2 notes /(1,2) 3 players", func="ob_roundtrip", args=((1, 2), 2, 3, 4, True), budget_s=b, bounds="two notes, players 0..2 symbolic (a player absent between two present ones)"))
    obs.append(dict(name="roundtrip 2 notes /(3,4) 3 players", func="ob_roundtrip", args=((3, 4), 1, 3, 4 if tier != "quick" else 2, False), budget_s=b, bounds="two notes, players 0..2 symbolic, denominators 3 and 4"))
    if tier != "quick":
        for ds in [(1, 2, 3), (4, 4, 3), (2, 4, 8)]:
            obs.append(dict(name=f"roundtrip 3 notes /{ds}", func="ob_roundtrip", args=(ds, 2, 1, 4, False), budget_s=b, bounds=f"three notes, denominators {ds}, beats in [0,4)"))
    for d in ((1, 4) if tier == "quick" else (1, 3, 4)):
        obs.append(dict(name=f"far measure /{d}", func="ob_far_measure", args=(d, 2), budget_s=b, bounds=f"one note, measure index 0..50, denominator {d}"))
    for c in (1, 4, 16):
        obs.append(dict(name=f"empty stream cols={c}", func="ob_empty", args=(c,), budget_s=30, bounds="no notes"))
    return obs


def signature(ob, res):
    return ob["func"] + ":" + str(res.get("info"))[:40]


def replay(data):
    import simfile
    from simfile.timing import Beat
    from simfile.notes import Note, NoteType, NoteData
    m = data["model"] or {}; a = data["args"]
    g = lambda k, d="0": Fraction(m.get(k, d))
    if data["func"] == "ob_empty":
        try:
            nd = NoteData.from_notes([], a[0])
        except Exception as e:
            return True, f"NoteData.from_notes([], {a[0]}) raises {type(e).__name__}: {e}"
        bad = nd.columns != a[0] or list(nd) != [] or _parse_layout(str(nd)) != [[["0" * a[0]] * 4]]
        return bad, f"from_notes([], {a[0]}) -> {str(nd)!r}"
    if data["func"] == "ob_far_measure":
        den, ncols = a
        notes = [Note(beat=Beat(int(g("n0")), den), column=int(g("c0")), note_type=NoteType.TAP, keysound_index=int(g("ks0")))]
    else:
        dens, ncols, players, maxbeat, with_ks = a
        notes = [Note(beat=Beat(int(g(f"n{i}")), dens[i]), column=int(g(f"c{i}")), note_type=NoteType[KINDS[i % 4]], player=int(g(f"pl{i}")) if players > 1 else 0,
                      keysound_index=int(g(f"ks{i}")) if (with_ks == "all" or (with_ks and i % 2 == 0)) else None) for i in range(len(dens))]
    try:
        nd = NoteData.from_notes(notes, ncols)
        back = list(nd)
    except Exception as e:
        return True, f"from_notes({notes}) raises {type(e).__name__}: {e}"
    bad = back != notes or nd.columns != ncols or str(NoteData.from_notes(back, ncols)) != str(nd)
    lay = _parse_layout(str(nd))
    for p in range(max(n.player for n in notes) + 1):
        mine = [Fraction(n.beat) for n in notes if n.player == p]
        wm = (int(max(mine) // 4) + 1) if mine else 1
        if p >= len(lay) or len(lay[p]) != wm:
            bad = True
            continue
        for mi in range(wm):
            q = 1
            for b in mine:
                if int(b // 4) == mi:
                    q = q * b.denominator // math.gcd(q, b.denominator)
            if len(lay[p][mi]) != 4 * q:
                bad = True
    return bad, f"from_notes({notes}, {ncols}) -> {str(nd)!r} -> {back}"


def main(tier):
    from vlib import core
    chk = core.Check(PROP, tier, "harness." + PROP, FUNCTIONS,
                     bounds={"quick": "1 note over 12 denominators incl. 7, 11, 13 (beats in [0,8)), 2 notes over 6 denominator pairs incl. (48,5) (beats in [0,4)), players 0..2, far measure <= 50, empty stream",
                             "thorough": "1 note over 13 denominators, 2 notes over 9 pairs (beats in [0,8)), 3 notes over 3 triples, far measure, empty stream"}[tier],
                     assumptions=ASSUMPTIONS, outside=OUTSIDE)
    chk.add_results(core.run_obligations("harness." + PROP, obligations(tier)))
    return chk.finish(signature)
