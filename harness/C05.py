"""C05 — mutate saves exactly the edited simfile, in the encoding it was read in (engine xh over the model filesystem)."""
from vlib import xhprop

PROP = "C05"
FILE = "xh_C05.py"
FUNCTIONS = ["simfile.open", "simfile.open_with_detected_encoding", "simfile.mutate", "simfile.load", "BaseSimfile.serialize (recorded)"]
ASSUMPTIONS = [
    "filesystem = ModelFS (pure-Python model with call log); what decodes under which encoding is a free boolean per tried encoding (over-approximates real codecs)",
    "written text is compared at parameter level: the marker sequence written to the model filesystem must denote exactly the parameters of serialize(simfile at exit / at entry) (StubParam recorder); "
    "the no-op-second-mutate clause runs with the real serializer and tokenizer on concrete edits",
    "byte-level family (bytes[...]): BytesFS holds bytes, text-mode reads/writes go through Python's real codecs (trusted base), binary reads allowed; a finite family of contents and configurations, enumerated "
    "exhaustively in plain Python - these obligations are NOT solver-decided (CrossHair substitutes its own codec models) and are reported as such",
    "a use of the model filesystem that the model cannot answer (e.g. a binary read where decoding is an abstract outcome bit) makes the obligation inconclusive (ModelLimit), never a violation",
]
OUTSIDE = ["byte contents other than the 11 representatives of the byte-level family (there Python's real codecs decide; elsewhere decoding is a free outcome bit)", "newline translation", "the native filesystem and real PyFilesystem implementations (I/O)", "edit values longer than 2 characters"]


def obligations(tier):
    T = 120 if tier == "quick" else 900
    obs = [dict(name="selftest_strip", func="selftest_strip", file="xhlib.py", timeout=60, bounds="engine self-test")]
    for ex in range(5):
        obs.append(dict(name=f"detect[explicit={ex}]", func="detect", pre=f"explicit == {ex}" + ("" if ex == 0 else " and order == 0"), timeout=T,
                        bounds="4 free decode bits; 6 try_encodings orders (default list, permutations, sub-lists) or explicit encoding=; both formats"))
    for ssc in (False, True):
        for op in range(5):
            obs.append(dict(name=f"mutate_ok[ssc={ssc},edit{op}]", func="mutate_ok", pre=f"ssc == {ssc} and op == {op}", timeout=T,
                            bounds="2 decode bits, output/backup configuration incl. both name clashes, edit value <=2 arbitrary chars"))
    obs.append(dict(name="noop_second", func="noop_second", timeout=T, bounds="4 concrete edits incl. escapes and non-ASCII, both formats, with/without output name; real serializer/tokenizer"))
    return obs


def signature(ob, res):
    return ob["func"]


def replay(data):
    from vlib import xh
    if data.get("func") == "ob_fs_conformance":
        from harness import fsconf
        return fsconf.replay(data)
    if data.get("func") == "ob_bytes":
        cex = data.get("cex") or {}
        return xh.replay("xh_C05", dict(func=cex.get("fn"), cex=cex.get("args")))
    return xh.replay("xh_C05", data)


def main(tier):
    from vlib import core
    extra = core.run_obligations("harness.fsconf", [dict(name="fs_conformance", func="ob_fs_conformance", args=(), budget_s=120,
                                 bounds="21 concrete mutate/discovery scenarios: ModelFS vs real MemoryFS vs native temp directory (validation of the model filesystem; a disagreement is fatal)")])
    extra += core.run_obligations("harness.bytesconf", [dict(name=f"bytes[content{ci}]", func="ob_bytes", args=(ci,), budget_s=300,
                                  bounds="byte level, exhaustive concrete enumeration (not solver-decided: the C codecs are replaced by CrossHair's own models): one of 13 byte contents (ASCII, UTF-8, CP1252-only, "
                                         "CP932, CP949, undecodable, incomplete multi-byte sequence at the very end, control characters / Unicode line boundaries inside a value, ...) x 6 try_encodings orders / explicit encoding= x output x backup x 4 edits x both formats, "
                                         "on a byte-level model filesystem with Python's real codecs") for ci in range(13)])
    return xhprop.main(PROP, tier, FILE, obligations(tier), FUNCTIONS, ASSUMPTIONS, OUTSIDE, signature, extra_chars=(1 if tier == "thorough" else 0), extra_results=extra,
                       bounds="all decode-outcome vectors over the tried encodings, 6 orders + explicit encoding, {.sm,.ssc} x output x backup x name clashes x 5 edit operations with symbolic values <=2")
