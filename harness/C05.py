"""C05 — mutate saves exactly the edited simfile, in the encoding it was read in (engine xh over the model filesystem)."""
from vlib import xhprop

PROP = "C05"
FILE = "xh_C05.py"
FUNCTIONS = ["simfile.open", "simfile.open_with_detected_encoding", "simfile.mutate", "simfile.load", "BaseSimfile.serialize (recorded)"]
ASSUMPTIONS = [
    "filesystem = ModelFS (pure-Python model with call log); what decodes under which encoding is a free boolean per tried encoding (over-approximates real codecs)",
    "written text is compared at parameter level: the marker sequence written to the model filesystem must denote exactly the parameters of serialize(simfile at exit / at entry) (StubParam recorder); "
    "the no-op-second-mutate clause runs with the real serializer and tokenizer on concrete edits",
]
OUTSIDE = ["which byte strings decode under which real codec, bytes on disk, newline translation", "the native filesystem and real PyFilesystem implementations (I/O)", "edit values longer than 2 characters"]


def obligations(tier):
    T = 120 if tier == "quick" else 900
    obs = [dict(name="selftest_strip", func="selftest_strip", file="xhlib.py", timeout=60, bounds="engine self-test")]
    for ex in range(5):
        obs.append(dict(name=f"detect[explicit={ex}]", func="detect", pre=f"explicit == {ex}" + ("" if ex == 0 else " and order == 0"), timeout=T,
                        bounds="4 free decode bits; 6 try_encodings orders (default list, permutations, sub-lists) or explicit encoding=; both formats"))
    for ssc in (False, True):
        for op in range(5):
            obs.append(dict(name=f"mutate_ok[ssc={ssc},edit{op}]", func="mutate_ok", pre=f"ssc == {ssc} and op == {op}", timeout=T,
                            bounds="2 decode bits, output/backup configuration incl. both name clashes, edit value <=2 arbitrary chars"))
    obs.append(dict(name="noop_second", func="noop_second", timeout=T, bounds="4 concrete edits incl. escapes and non-ASCII, both formats, with/without output name; real serializer/tokenizer"))
    return obs


def signature(ob, res):
    return ob["func"]


def replay(data):
    from vlib import xh
    return xh.replay("xh_C05", data)


def main(tier):
    from vlib import core
    extra = core.run_obligations("harness.fsconf", [dict(name="fs_conformance", func="ob_fs_conformance", args=(), budget_s=120,
                                 bounds="21 concrete mutate/discovery scenarios: ModelFS vs real MemoryFS vs native temp directory (validation of the model filesystem; a disagreement is fatal)")])
    return xhprop.main(PROP, tier, FILE, obligations(tier), FUNCTIONS, ASSUMPTIONS, OUTSIDE, signature, extra_chars=(1 if tier == "thorough" else 0), extra_results=extra,
                       bounds="all decode-outcome vectors over the tried encodings, 6 orders + explicit encoding, {.sm,.ssc} x output x backup x name clashes x 5 edit operations with symbolic values <=2")
