"""C10 — ungrouping grouped notes restores the original note stream (engine symx)."""
from fractions import Fraction
from harness import notes_common as nc

PROP = "C10"
MODS = ("simfile.timing", "simfile.notes", "simfile.notes.group")
FUNCTIONS = ["simfile.notes.group.ungroup_notes (pending_tails heap, check_orphan)", "simfile.notes.group.group_notes", "Note.__lt__ / _comparable"]
ASSUMPTIONS = ["tails carry no keysound index (property domain); heads may", "beats are arbitrary non-negative reals; single player",
               "shim classes stand in for Fraction/int"]
OUTSIDE = ["more than 4 notes (quick: 3)", "more than 2 columns", "multi-player streams"]


def _setup():
    from vlib import symx
    return symx, symx.load_shimmed(MODS)


def _same_note(symx, N, got, m):
    """conditions that `got` equals the input note described by m, or False"""
    if type(got) is not N.Note or got.column != m["col"] or got.note_type is not N.NoteType[m["kind"]] or got.player != 0:
        return False
    if (got.keysound_index is None) != (m["ks"] is None):
        return False
    c = [symx.zr(symx.term_of(got.beat)) == m["beat"]]
    if m["ks"] is not None:
        c.append(symx.term_of(got.keysound_index) == m["ks"])
    return c


def ob_roundtrip(n, ncols, same, join, ohead, otail, upol, kindset=5, shard=None, include="all", budget_s=120):
    """ungroup(group(stream)) == the included notes minus exactly the notes the orphan options drop, in the original order
    (per-type grouping: same multiset with beats non-decreasing)"""
    import z3
    symx, mods = _setup()
    G = mods["simfile.notes.group"]; N = mods["simfile.notes"]

    def run():
        if shard is not None:   # this obligation covers the streams whose first note has kind number `shard`
            symx.CTL.assume(z3.Int("kind0") == shard)
        kinds = nc.kindlist(kindset, N.NoteType)
        inc = None
        if include == "subsets":   # include_note_types: every subset of the kinds, by solver-guided case split
            idx = symx.choose("inc", 2 ** len(kinds))
            inc = tuple(k for i, k in enumerate(kinds) if (idx >> i) & 1)
        notes, meta = nc.gen_notes(symx, mods, n, ncols, kinds)
        kw = dict(same_beat_notes=G.SameBeatNotes[same], join_heads_to_tails=join,
                  orphaned_head=G.OrphanedNotes[ohead], orphaned_tail=G.OrphanedNotes[otail])
        if inc is not None:
            kw["include_note_types"] = frozenset(N.NoteType[k] for k in inc)
        st, groups = nc.reference_group(symx, meta, inc, same, join, ohead, otail)
        try:
            grouped = list(G.group_notes(notes, **kw))
        except G.OrphanedNoteException:
            if st == "raise":
                return True, ("group raises as documented",)
            return False, ("group raised unexpectedly",)
        if st == "raise":
            return False, ("group did not raise",)
        # expected output: every note that the reference grouping still contains (joined items contribute head and tail)
        kept = set()
        for g in groups:
            for it in g:
                kept.add(it[1])
                if it[0] == "joined":
                    kept.add(it[2])
        try:
            back = list(G.ungroup_notes(grouped, orphaned_notes=G.OrphanedNotes[upol]))
        except G.OrphanedNoteException:
            # group_notes never produces a note inside a joined hold on its column, so ungroup must not raise here
            return False, ("ungroup raised on group_notes output", [(m["kind"], m["col"]) for m in meta])
        exp = [m for m in meta if m["i"] in kept]
        if len(back) != len(exp):
            return False, ("length", len(back), len(exp), [(m["kind"], m["col"]) for m in meta])
        conds = []
        if same == "JOIN_BY_NOTE_TYPE":
            # same multiset, beats non-decreasing: match each output note to a distinct expected note
            used = set()
            for got in back:
                hit = None
                for m in exp:
                    if m["i"] in used:
                        continue
                    c = _same_note(symx, N, got, m)
                    if c is not False and all(symx.CTL.branch(x) for x in c):
                        hit = m
                        break
                if hit is None:
                    return False, ("multiset", [(m["kind"], m["col"]) for m in meta])
                used.add(hit["i"])
            for a, b in zip(back, back[1:]):
                conds.append(symx.zr(symx.term_of(a.beat)) <= symx.zr(symx.term_of(b.beat)))
        else:
            for got, m in zip(back, exp):
                c = _same_note(symx, N, got, m)
                if c is False:
                    return False, ("field", m["kind"], m["col"], [(x["kind"], x["col"]) for x in meta])
                conds += c
        return (z3.And(*conds) if conds else True), ("roundtrip", [(m["kind"], m["col"]) for m in meta])
    return symx.explore(run, budget_s=budget_s)


def ob_inside_hold(upol, budget_s=120):
    """hand-built grouped sequence: a NoteWithTail and a plain note; the plain note lies inside the hold on its column ->
    ungroup raises / passes it through / drops it as the option says; otherwise everything is passed through"""
    import z3
    symx, mods = _setup()
    G = mods["simfile.notes.group"]; N = mods["simfile.notes"]; T = mods["simfile.timing"]

    def run():
        hb, tb, nb = z3.Real("hb"), z3.Real("tb"), z3.Real("nb")
        symx.CTL.assume(hb >= 0, tb > hb, nb >= hb)
        hcol = symx.choose("hcol", 2); ncol = symx.choose("ncol", 2)
        symx.CTL.assume(z3.Implies(nb == hb, z3.Int("ncol") > z3.Int("hcol")))
        symx.CTL.assume(z3.Not(z3.And(z3.Int("ncol") == z3.Int("hcol"), nb == tb)))  # one note per position
        symx.require_feasible()
        hk = nc.HEADS[symx.choose("hk", 2)]
        kind = ["TAP", "MINE", "HOLD_HEAD"][symx.choose("nk", 3)]
        hks = z3.Int("hks")
        head = G.NoteWithTail(beat=T.Beat(symx.FracShim(hb)), column=hcol, note_type=N.NoteType[hk], tail_beat=T.Beat(symx.FracShim(tb)),
                              keysound_index=symx.SymInt(hks))
        note = N.Note(beat=T.Beat(symx.FracShim(nb)), column=ncol, note_type=N.NoteType[kind])
        layout = symx.choose("layout", 2)
        grouped = [[head], [note]] if layout == 0 else [[head, note]]
        if layout == 1:
            symx.CTL.assume(nb == hb)
            symx.require_feasible()
        # the note splits the hold iff same column and head beat < note beat < tail beat  (position order on that column)
        inside = symx.CTL.branch(z3.And(z3.BoolVal(ncol == hcol), nb > hb, nb < tb))
        try:
            back = list(G.ungroup_notes(grouped, orphaned_notes=G.OrphanedNotes[upol]))
            raised = False
        except G.OrphanedNoteException:
            raised = True
        if inside and upol == "RAISE_EXCEPTION":
            return raised, ("inside/raise",)
        if raised:
            return False, ("raised although the note is not inside the hold", hcol, ncol)
        want_note = not (inside and upol == "DROP_ORPHAN")
        # expected stream: head, [note], tail in position order (player, beat, column)
        exp = [("head",)]
        if want_note:
            exp.append(("note",))
        exp.append(("tail",))
        if len(back) != len(exp):
            return False, ("length", len(back), len(exp), inside)
        conds = []
        # identify elements
        def is_head(x): return x.note_type is N.NoteType[hk] and x.column == hcol
        def is_tail(x): return x.note_type is N.NoteType.TAIL and x.column == hcol
        heads = [x for x in back if is_head(x) and not (kind == hk and x is not back[0] and False)]
        tails = [x for x in back if is_tail(x)]
        if len(tails) != 1 or tails[0].keysound_index is not None:
            return False, ("tail missing or carries a keysound", len(tails))
        conds.append(symx.zr(symx.term_of(tails[0].beat)) == tb)
        if type(back[0]) is not N.Note or not is_head(back[0]):
            return False, ("head not first",)
        conds.append(symx.zr(symx.term_of(back[0].beat)) == hb)
        conds.append(symx.term_of(back[0].keysound_index) == hks if back[0].keysound_index is not None else z3.BoolVal(False))
        if want_note:
            others = [x for x in back[1:] if x is not tails[0]]
            if len(others) != 1 or others[0].column != ncol or others[0].note_type is not N.NoteType[kind]:
                return False, ("note missing",)
            conds.append(symx.zr(symx.term_of(others[0].beat)) == nb)
        # output sorted by position
        for a, b in zip(back, back[1:]):
            ab, bb = symx.zr(symx.term_of(a.beat)), symx.zr(symx.term_of(b.beat))
            conds.append(z3.Or(ab < bb, z3.And(ab == bb, z3.BoolVal(a.column <= b.column))))
        return z3.And(*conds), ("inside_hold", inside, upol)
    return symx.explore(run, budget_s=budget_s)


def ob_inside_two_holds(upol, budget_s=200):
    """two joined holds open at once on columns 0 and 1 (symbolic head/tail beats) and a plain note on one of those columns:
    it splits a hold iff it lies strictly inside THAT column's hold -> raise / keep / drop as the option says"""
    import z3
    symx, mods = _setup()
    G = mods["simfile.notes.group"]; N = mods["simfile.notes"]; T = mods["simfile.timing"]

    def run():
        h0, t0, h1, t1, nb = (z3.Real(x) for x in ("h0", "t0", "h1", "t1", "nb"))
        symx.CTL.assume(h0 >= 0, h1 >= h0, t0 > h0, t1 > h1, nb > h1)   # the grouped sequence is position sorted
        ncol = symx.choose("ncol", 2)
        hb, tb = (h0, t0) if ncol == 0 else (h1, t1)
        symx.CTL.assume(nb != hb, nb != tb)            # one note per position
        symx.require_feasible()
        grouped = [[G.NoteWithTail(beat=T.Beat(symx.FracShim(h0)), column=0, note_type=N.NoteType.HOLD_HEAD, tail_beat=T.Beat(symx.FracShim(t0)))],
                   [G.NoteWithTail(beat=T.Beat(symx.FracShim(h1)), column=1, note_type=N.NoteType.ROLL_HEAD, tail_beat=T.Beat(symx.FracShim(t1)))],
                   [N.Note(beat=T.Beat(symx.FracShim(nb)), column=ncol, note_type=N.NoteType.TAP)]]
        inside = symx.CTL.branch(z3.And(nb > hb, nb < tb))
        try:
            back = list(G.ungroup_notes(grouped, orphaned_notes=G.OrphanedNotes[upol]))
            raised = False
        except G.OrphanedNoteException:
            raised = True
        if inside and upol == "RAISE_EXCEPTION":
            return raised, ("two holds: inside/raise", ncol)
        if raised:
            return False, ("raised although the note is not inside its column's hold", ncol)
        taps = [x for x in back if x.note_type is N.NoteType.TAP]
        want_tap = not (inside and upol == "DROP_ORPHAN")
        if len(taps) != (1 if want_tap else 0) or len(back) != 4 + (1 if want_tap else 0):
            return False, ("two holds: tap kept/dropped wrongly", inside, upol, len(back))
        conds = []
        for a, b in zip(back, back[1:]):
            ab, bb = symx.zr(symx.term_of(a.beat)), symx.zr(symx.term_of(b.beat))
            conds.append(z3.Or(ab < bb, z3.And(ab == bb, z3.BoolVal(a.column <= b.column))))
        return z3.And(*conds), ("two holds", inside, upol)
    return symx.explore(run, budget_s=budget_s)


def ob_tail_in_row(upol, budget_s=200):
    """hand-built grouped sequence: a joined hold on column 1 and a later group holding two plain notes on columns 0 and 2 (one
    beat, as JOIN_ALL produces): wherever the regenerated tail falls - before, after or exactly on that group's beat, i.e.
    between its two notes - the ungrouped stream is in (beat, column) order and contains exactly head, tail and both notes"""
    import z3
    symx, mods = _setup()
    G = mods["simfile.notes.group"]; N = mods["simfile.notes"]; T = mods["simfile.timing"]

    def run():
        hb, tb, nb = z3.Real("hb"), z3.Real("tb"), z3.Real("nb")
        symx.CTL.assume(hb >= 0, tb > hb, nb > hb)
        symx.require_feasible()
        grouped = [[G.NoteWithTail(beat=T.Beat(symx.FracShim(hb)), column=1, note_type=N.NoteType.HOLD_HEAD, tail_beat=T.Beat(symx.FracShim(tb)))],
                   [N.Note(beat=T.Beat(symx.FracShim(nb)), column=0, note_type=N.NoteType.TAP),
                    N.Note(beat=T.Beat(symx.FracShim(nb)), column=2, note_type=N.NoteType.MINE)]]
        try:
            back = list(G.ungroup_notes(grouped, orphaned_notes=G.OrphanedNotes[upol]))
        except G.OrphanedNoteException:
            return False, ("raised although no note lies on the hold's column",)
        kinds = sorted(x.note_type.name for x in back)
        if kinds != ["HOLD_HEAD", "MINE", "TAIL", "TAP"]:
            return False, ("notes added or lost", kinds)
        conds = []
        for a, b in zip(back, back[1:]):
            ab, bb = symx.zr(symx.term_of(a.beat)), symx.zr(symx.term_of(b.beat))
            conds.append(z3.Or(ab < bb, z3.And(ab == bb, z3.BoolVal(a.column < b.column))))
        return z3.And(*conds), ("tail in row", upol)
    return symx.explore(run, budget_s=budget_s)


def ob_many_holds(k, upol, budget_s=200):
    """hand-built grouped sequence with k holds open at once (columns 0..k-1, symbolic tail beats in any order) followed by a
    plain note on another column: the ungrouped stream is position sorted and contains exactly heads, tails and the note"""
    import z3
    symx, mods = _setup()
    G = mods["simfile.notes.group"]; N = mods["simfile.notes"]; T = mods["simfile.timing"]

    def run():
        hb = [z3.Real(f"h{i}") for i in range(k)]; tb = [z3.Real(f"t{i}") for i in range(k)]
        nb = z3.Real("nb")
        for i in range(k):
            symx.CTL.assume(hb[i] >= 0, tb[i] > hb[i])
            if i:
                symx.CTL.assume(hb[i] >= hb[i - 1])
        symx.CTL.assume(nb >= hb[k - 1])
        grouped = [[G.NoteWithTail(beat=T.Beat(symx.FracShim(hb[i])), column=i, note_type=N.NoteType.HOLD_HEAD, tail_beat=T.Beat(symx.FracShim(tb[i])))] for i in range(k)]
        grouped.append([N.Note(beat=T.Beat(symx.FracShim(nb)), column=k, note_type=N.NoteType.TAP)])
        try:
            back = list(G.ungroup_notes(grouped, orphaned_notes=G.OrphanedNotes[upol]))
        except G.OrphanedNoteException:
            return False, ("raised although the note is on a free column",)
        if len(back) != 2 * k + 1:
            return False, ("length", len(back))
        conds = []
        # position sorted
        for a, b in zip(back, back[1:]):
            ab, bb = symx.zr(symx.term_of(a.beat)), symx.zr(symx.term_of(b.beat))
            conds.append(z3.Or(ab < bb, z3.And(ab == bb, z3.BoolVal(a.column < b.column))))
        # exactly the expected notes
        for i in range(k):
            heads = [x for x in back if x.column == i and x.note_type is N.NoteType.HOLD_HEAD]
            tails = [x for x in back if x.column == i and x.note_type is N.NoteType.TAIL]
            if len(heads) != 1 or len(tails) != 1:
                return False, ("column", i)
            conds.append(symx.zr(symx.term_of(heads[0].beat)) == hb[i]); conds.append(symx.zr(symx.term_of(tails[0].beat)) == tb[i])
        taps = [x for x in back if x.column == k]
        if len(taps) != 1:
            return False, ("tap",)
        conds.append(symx.zr(symx.term_of(taps[0].beat)) == nb)
        return z3.And(*conds), ("many_holds", k)
    return symx.explore(run, budget_s=budget_s)


def obligations(tier):
    obs = []
    n, b = (3, 200) if tier == "quick" else (4, 3000)
    for same in nc.SAME:
        for join in (False, True):
            pols = [("KEEP_ORPHAN", "KEEP_ORPHAN"), ("DROP_ORPHAN", "KEEP_ORPHAN"), ("KEEP_ORPHAN", "DROP_ORPHAN"), ("DROP_ORPHAN", "DROP_ORPHAN"),
                    ("RAISE_EXCEPTION", "KEEP_ORPHAN")] if join else [("KEEP_ORPHAN", "KEEP_ORPHAN")]
            for oh, ot in pols:
                for up in nc.POL:
                    if tier == "quick" and up != "RAISE_EXCEPTION" and (oh, ot) != ("KEEP_ORPHAN", "KEEP_ORPHAN"):
                        continue
                    if not join and up != "KEEP_ORPHAN" and tier == "quick":
                        continue
                    obs.append(dict(name=f"roundtrip n={n} {same} join={join} head={oh} tail={ot} ungroup={up}", func="ob_roundtrip",
                                    args=(n, 2, same, join, oh, ot, up), budget_s=b,
                                    bounds=f"{n} notes, 2 columns, 5 kinds, symbolic beats with all tie patterns, head keysounds symbolic, tails without keysound"))
    # every member of the NoteType enum (read from the source at run time) as a note kind
    # include_note_types over every subset of the five kinds (2 notes): only the included types come back
    for oh, ot in (("KEEP_ORPHAN", "KEEP_ORPHAN"), ("DROP_ORPHAN", "DROP_ORPHAN"), ("KEEP_ORPHAN", "DROP_ORPHAN"), ("RAISE_EXCEPTION", "RAISE_EXCEPTION")):
        obs.append(dict(name=f"roundtrip n=2 include=subsets KEEP_SEPARATE join=True head={oh} tail={ot} ungroup=RAISE_EXCEPTION", func="ob_roundtrip",
                        args=(2, 2, "KEEP_SEPARATE", True, oh, ot, "RAISE_EXCEPTION", 5, None, "subsets"), budget_s=b,
                        bounds="2 notes, 2 columns, 5 kinds, include_note_types = every subset of the kinds by case split"))
    obs.append(dict(name="roundtrip n=2 include=subsets JOIN_ALL join=False ungroup=KEEP_ORPHAN", func="ob_roundtrip",
                    args=(2, 2, "JOIN_ALL", False, "KEEP_ORPHAN", "KEEP_ORPHAN", "KEEP_ORPHAN", 5, None, "subsets"), budget_s=b,
                    bounds="2 notes, 2 columns, 5 kinds, include_note_types = every subset of the kinds by case split, no joining"))
    from simfile.notes import NoteType as _NT
    allk = nc.kinds_all(_NT)
    for same in nc.SAME:
        for up in (("RAISE_EXCEPTION",) if tier == "quick" else nc.POL):
            for k0 in range(len(allk)):
                obs.append(dict(name=f"roundtrip n=3 all-kinds first={allk[k0]} {same} join=True head=KEEP_ORPHAN tail=KEEP_ORPHAN ungroup={up}", func="ob_roundtrip",
                                args=(3, 2, same, True, "KEEP_ORPHAN", "KEEP_ORPHAN", up, "all", k0), budget_s=b,
                                bounds=f"3 notes, 2 columns, every NoteType member ({len(allk)}) as a kind (first note: {allk[k0]}), symbolic beats with all tie patterns"))
    for k in ((3,) if tier == "quick" else (3, 4)):
        obs.append(dict(name=f"many_holds k={k}", func="ob_many_holds", args=(k, "RAISE_EXCEPTION"), budget_s=b,
                        bounds=f"{k} NoteWithTail on distinct columns with symbolic head/tail beats (every release order), then a tap on a free column"))
    for up in nc.POL:
        obs.append(dict(name=f"inside_two_holds ungroup={up}", func="ob_inside_two_holds", args=(up,), budget_s=b,
                        bounds="two NoteWithTail on columns 0 and 1 (symbolic beats, any overlap) + a tap on either column (symbolic beat)"))
    for up in nc.POL:
        obs.append(dict(name=f"tail_in_row ungroup={up}", func="ob_tail_in_row", args=(up,), budget_s=b,
                        bounds="one NoteWithTail on column 1 (symbolic head/tail beats) + a group of two notes on columns 0 and 2 at a symbolic beat (before, after or on the tail's beat)"))
    for up in nc.POL:
        obs.append(dict(name=f"inside_hold ungroup={up}", func="ob_inside_hold", args=(up,), budget_s=b,
                        bounds="one NoteWithTail (symbolic head/tail beats, keysound) + one plain note (symbolic beat, 2 columns, 3 kinds), both row layouts"))
    return obs


def signature(ob, res):
    return ob["func"] + ":" + str(res.get("info"))[:50]


def replay(data):
    import simfile
    from simfile.timing import Beat
    from simfile.notes import Note, NoteType
    from simfile.notes import group as G
    a = data["args"]; m = data["model"]
    g = lambda k, d="0": Fraction(m.get(k, d))
    if data["func"] == "ob_roundtrip":
        n, ncols, same, join, oh, ot, up = a[:7]
        kinds = nc.kindlist(a[7] if len(a) > 7 else 5, NoteType)
        notes = nc.model_notes(m, n, ncols, kinds)
        kw = dict(same_beat_notes=G.SameBeatNotes[same], join_heads_to_tails=join, orphaned_head=G.OrphanedNotes[oh], orphaned_tail=G.OrphanedNotes[ot])
        inc = None
        if len(a) > 9 and a[9] == "subsets":
            inc = tuple(k for i, k in enumerate(kinds) if (int(m.get("inc", 0)) >> i) & 1)
            kw["include_note_types"] = frozenset(NoteType[k] for k in inc)
        st, groups = nc.concrete_reference(notes, inc, same, join, oh, ot)
        try:
            grouped = list(G.group_notes(notes, **kw))
        except G.OrphanedNoteException:
            return st != "raise", f"group_notes raised on {notes}"
        if st == "raise":
            return True, f"group_notes did not raise on {notes}"
        exp = []
        for grp in groups:
            for it in grp:
                if isinstance(it, G.NoteWithTail):
                    exp.append(Note(it.beat, it.column, it.note_type, it.player, it.keysound_index))
                    exp.append(Note(it.tail_beat, it.column, NoteType.TAIL, it.player, None))
                else:
                    exp.append(it)
        exp.sort(key=lambda x: (x.player, x.beat, x.column))
        try:
            back = list(G.ungroup_notes(grouped, orphaned_notes=G.OrphanedNotes[up]))
        except G.OrphanedNoteException as e:
            return True, f"ungroup_notes raised {e!r} on the output of group_notes({notes}, {kw})"
        if same == "JOIN_BY_NOTE_TYPE":
            bad = sorted(back, key=lambda x: (x.beat, x.column)) != exp or any(x.beat > y.beat for x, y in zip(back, back[1:]))
        else:
            bad = back != exp
        return bad, f"ungroup(group({notes}, {kw}), {up}) = {back}; expected {exp}"
    if data["func"] == "ob_tail_in_row":
        up = a[0]
        grouped = [[G.NoteWithTail(beat=Beat(g("hb")), column=1, note_type=NoteType.HOLD_HEAD, tail_beat=Beat(g("tb")))],
                   [Note(beat=Beat(g("nb")), column=0, note_type=NoteType.TAP), Note(beat=Beat(g("nb")), column=2, note_type=NoteType.MINE)]]
        try:
            back = list(G.ungroup_notes(grouped, orphaned_notes=G.OrphanedNotes[up]))
        except G.OrphanedNoteException as e:
            return True, f"ungroup_notes({grouped}, {up}) raised {e!r}"
        bad = sorted(back, key=lambda x: (x.beat, x.column)) != back or len(back) != 4
        return bad, f"ungroup_notes({grouped}, {up}) = {back}: not in (beat, column) order or notes lost"
    if data["func"] == "ob_inside_two_holds":
        up = a[0]; ncol = int(g("ncol"))
        grouped = [[G.NoteWithTail(beat=Beat(g("h0")), column=0, note_type=NoteType.HOLD_HEAD, tail_beat=Beat(g("t0")))],
                   [G.NoteWithTail(beat=Beat(g("h1")), column=1, note_type=NoteType.ROLL_HEAD, tail_beat=Beat(g("t1")))],
                   [Note(beat=Beat(g("nb")), column=ncol, note_type=NoteType.TAP)]]
        hb, tb = (g("h0"), g("t0")) if ncol == 0 else (g("h1"), g("t1"))
        inside = hb < g("nb") < tb
        try:
            back = list(G.ungroup_notes(grouped, orphaned_notes=G.OrphanedNotes[up]))
        except G.OrphanedNoteException:
            back = "raise"
        if inside and up == "RAISE_EXCEPTION":
            return back != "raise", f"ungroup_notes({grouped}, {up}) = {back}; the tap splits the hold on its column: expected OrphanedNoteException"
        if back == "raise":
            return True, f"ungroup_notes({grouped}, {up}) raised although the tap is not inside its column's hold"
        ntap = sum(1 for x in back if x.note_type is NoteType.TAP)
        return ntap != (0 if (inside and up == "DROP_ORPHAN") else 1), f"ungroup_notes({grouped}, {up}) = {back}"
    if data["func"] == "ob_many_holds":
        k, up = a
        grouped = [[G.NoteWithTail(beat=Beat(g(f"h{i}")), column=i, note_type=NoteType.HOLD_HEAD, tail_beat=Beat(g(f"t{i}")))] for i in range(k)]
        tap = Note(beat=Beat(g("nb")), column=k, note_type=NoteType.TAP)
        grouped.append([tap])
        back = list(G.ungroup_notes(grouped, orphaned_notes=G.OrphanedNotes[up]))
        exp = sorted([Note(x[0].beat, x[0].column, x[0].note_type) for x in grouped[:-1]] + [Note(x[0].tail_beat, x[0].column, NoteType.TAIL) for x in grouped[:-1]] + [tap],
                     key=lambda n: (n.player, n.beat, n.column))
        return back != exp, f"ungroup_notes({grouped}) = {back}; expected {exp}"
    up = a[0]
    hk = nc.HEADS[int(g("hk"))]; kind = ["TAP", "MINE", "HOLD_HEAD"][int(g("nk"))]
    hcol, ncol = int(g("hcol")), int(g("ncol"))
    head = G.NoteWithTail(beat=Beat(g("hb")), column=hcol, note_type=NoteType[hk], tail_beat=Beat(g("tb")), keysound_index=int(g("hks")))
    note = Note(beat=Beat(g("nb")), column=ncol, note_type=NoteType[kind])
    grouped = [[head], [note]] if int(g("layout")) == 0 else [[head, note]]
    inside = ncol == hcol and head.beat < note.beat < head.tail_beat
    try:
        back = list(G.ungroup_notes(grouped, orphaned_notes=G.OrphanedNotes[up]))
    except G.OrphanedNoteException:
        back = "raise"
    exp = [Note(head.beat, hcol, head.note_type, 0, head.keysound_index), Note(head.tail_beat, hcol, NoteType.TAIL, 0, None)]
    if not (inside and up == "DROP_ORPHAN"):
        exp.append(note)
    exp.sort(key=lambda x: (x.player, x.beat, x.column))
    if inside and up == "RAISE_EXCEPTION":
        exp = "raise"
    return back != exp, f"ungroup_notes({grouped}, {up}) = {back}; expected {exp}"


def main(tier):
    from vlib import core
    chk = core.Check(PROP, tier, "harness." + PROP, FUNCTIONS,
                     bounds={"quick": "streams of 3 notes on 2 columns, 5 kinds; 3 same-beat modes x join x orphan policies x ungroup policies (slice); hand-built note-inside-hold sequences",
                             "thorough": "streams of 4 notes, full policy product"}[tier],
                     assumptions=ASSUMPTIONS, outside=OUTSIDE)
    chk.add_results(core.run_obligations("harness." + PROP, obligations(tier)))
    return chk.finish(signature)
