"""C04 — load, save, load loses nothing; a second save changes nothing (engine xh, parameter level)."""
from vlib import xhprop

PROP = "C04"
FILE = "xh_C04.py"
FUNCTIONS = ["SMSimfile._parse", "SSCSimfile._parse", "BaseSimfile.serialize", "SMChart.serialize", "SSCChart.serialize", "BaseCharts.serialize"]
ASSUMPTIONS = [
    "escapes_real[...] obligations: exhaustive concrete enumeration with the REAL msdparser serializer and lexer (not solver-decided; the parameter-level obligations replace MSDParameter by a recorder and cannot see escaping)",
    "'a text the loader accepts' is, modulo the tokenizer, an arbitrary parameter stream: 2 symbolic parameters (11 key spellings incl. lower case, duplicates, key-only, multi-component, NOTES with 5..7 components) after 7 concrete prefixes",
    "msdparser is the environment (StubParam recorder); the corpus files go through the real tokenizer and serializer concretely",
]
OUTSIDE = ["character-level text (tokenizer)", "random edits/truncations/splices of corpus files (sampling is not this technique)", "components longer than 2 characters"]


def obligations(tier):
    T = 120 if tier == "quick" else 600
    obs = [dict(name="selftest_strip", func="selftest_strip", file="xhlib.py", timeout=60, bounds="engine self-test")]
    for f in ("cycle_sm", "cycle_ssc"):
        if tier == "quick":
            pfxs = (0, 5) if f == "cycle_sm" else (0, 4, 6)
            k1s = (1, 2, 3, 4) if f == "cycle_sm" else (1, 2, 3, 4, 10, 11)
        else:
            pfxs, k1s = range(7), range(13)
        for pfx in pfxs:
            for k1 in k1s:
                if tier == "quick" and f == "cycle_ssc" and k1 in (1, 10) and pfx != 0:
                    continue   # the lower-case / mixed-case spellings run after the empty prefix only in the quick tier
                for n1 in range(4):
                    obs.append(dict(name=f"{f}[prefix{pfx},k1={k1},n1={n1}]", func=f, pre=f"pfx == {pfx} and k1 == {k1} and n1 == {n1}", timeout=(3 * T if (k1 == 2 and n1 == 3) else 2 * T if (k1 == 2 and n1 == 2) else T),
                                    bounds="parse -> serialize -> parse -> serialize on a parameter stream with 2 symbolic parameters; one symbolic component <=2 arbitrary chars, the others concrete"))
    obs.append(dict(name="corpus", func="corpus", timeout=T, bounds="the five corpus files, real tokenizer"))
    if tier == "quick":
        obs.append(dict(name="chars_cycle[|text|<=2]", func="chars_cycle", pre="len(text) <= 2", timeout=2 * T, bounds="character level: every text of <= 2 characters over the MSD alphabet, real lexer and serializer"))
    else:
        for st in (False, True):
            obs.append(dict(name=f"chars_cycle[|text|<=3,strict={st}]", func="chars_cycle", pre=f"strict == {st}", timeout=2 * T, bounds="character level: every text of <= 3 characters over the MSD alphabet"))
    return obs


def signature(ob, res):
    return ob["func"]


def replay(data):
    from vlib import xh
    if data.get("func") == "ob_escapes":
        from harness import escconf
        return escconf.replay(data)
    return xh.replay("xh_C04", data)


def main(tier):
    from vlib import core
    from harness import escconf
    extra = core.run_obligations("harness.escconf", escconf.obligations("both"))
    return xhprop.main(PROP, tier, FILE, obligations(tier), FUNCTIONS, ASSUMPTIONS, OUTSIDE, signature, extra_results=extra,
                       bounds="parameter streams of <=5 parameters (2 symbolic), components <=2 chars, both formats; 5 corpus files")
