#!/usr/bin/env python3
"""Entry point of every check:  run.py <property id> [--tier quick|thorough] [--replay <file>]

Re-executes itself under /verif/.venv (built by setup.sh) when started by another python.
Exit 0: property held on everything explored (inconclusive obligations are reported, not counted);
exit 1 + "VIOLATION property=<id> replay=<path>": a counterexample that replays on the real code;
exit 3: the machinery itself is broken or blind.
"""
import os, sys, json, importlib, subprocess

VERIF = os.path.dirname(os.path.abspath(__file__))
PY = os.path.join(VERIF, ".venv", "bin", "python")


def ensure_env():
    if os.path.realpath(sys.prefix) != os.path.realpath(os.path.join(VERIF, ".venv")):
        if not os.path.exists(PY):
            r = subprocess.run(["/bin/sh", os.path.join(VERIF, "setup.sh")], capture_output=True, text=True)
            if r.returncode != 0:
                print(r.stdout, r.stderr)
                sys.exit(3)
        os.execv(PY, [PY, "-W", "ignore"] + sys.argv)


def main():
    ensure_env()
    import warnings
    warnings.filterwarnings("ignore")
    sys.path.insert(0, VERIF)
    if os.environ.get("VERIF_REPO"):  # scratch copies of the repository (mutation trials); default is /repo itself
        sys.path.insert(0, os.environ["VERIF_REPO"])
    args = sys.argv[1:]
    if not args:
        print(__doc__)
        sys.exit(2)
    prop = args[0]
    tier = os.environ.get("VERIF_TIER", "quick")
    replay = None
    i = 1
    while i < len(args):
        if args[i] == "--tier":
            tier = args[i + 1]; i += 2
        elif args[i] == "--replay":
            replay = args[i + 1]; i += 2
        else:
            i += 1
    mod = importlib.import_module("harness." + prop)
    if replay:
        data = json.load(open(replay))
        try:
            ok, msg = mod.replay(data)
        except Exception as e:
            import traceback
            tb = traceback.extract_tb(e.__traceback__)
            inner = tb[-1].filename if tb else ""
            repo = os.path.realpath(os.environ.get("VERIF_REPO", "/repo"))
            in_repo = any(os.path.realpath(f.filename).startswith(repo + os.sep) for f in tb)
            last_verif = os.path.realpath(inner).startswith(os.path.realpath(VERIF) + os.sep)
            if in_repo and not last_verif:
                ok, msg = True, "the real code raises %s: %s (at %s:%s)" % (type(e).__name__, e, inner, tb[-1].lineno)
            else:
                print("REPLAY ERROR (in the harness, not counted): %s: %s" % (type(e).__name__, e))
                sys.exit(2)
        msg = str(msg)
        if len(msg) > 3000:
            msg = msg[:3000] + " ...[%d more characters]" % (len(msg) - 3000)
        print(("REPRODUCED: " if ok else "NOT REPRODUCED: ") + msg)
        sys.exit(1 if ok else 0)
    sys.exit(mod.main(tier))


if __name__ == "__main__":
    main()
