#!/bin/sh
# Build the overlay interpreter used by every check: /venv's python + repo deps + crosshair/z3 from the offline wheelhouse.
set -e
cd "$(dirname "$0")"
if [ ! -x .venv/bin/python ] || ! .venv/bin/python -c "import z3, crosshair" 2>/dev/null; then
  rm -rf .venv
  /venv/bin/python -m venv .venv
  SP=$(.venv/bin/python -c "import sysconfig; print(sysconfig.get_paths()['purelib'])")
  echo "import site; site.addsitedir('/venv/lib/python3.12/site-packages')" > "$SP/_overlay.pth"
  PIP_NO_INDEX=1 .venv/bin/pip install -q --no-index --find-links /opt/veriftools/wheels crosshair-tool z3-solver
fi
.venv/bin/python -W ignore -c "import z3, crosshair, simfile, msdparser; print('setup ok: z3', z3.get_version_string(), 'simfile from', simfile.__file__)"
