#!/bin/sh
# Runs the quick check of the property named in each seeded change against a scratch worktree with that change applied
# and prints one line per seed: CAUGHT (exit 1 with a VIOLATION line) / MISSED (exit 0) / ERROR.
cd "$(dirname "$0")"
for d in seeded/${1:-}*/; do
  id=$(basename $d)
  prop=$(python3 -c "import json,sys; print(json.load(open('$d/meta.json'))['property'])")
  W=/tmp/sm-$id; git -C /repo worktree remove --force $W 2>/dev/null; rm -rf $W
  git -C /repo worktree add --detach $W HEAD >/dev/null 2>&1 || { echo "$id $prop ERROR worktree"; continue; }
  P=$(realpath $d/patch.diff)
  (cd $W && (git apply $P 2>/dev/null || patch -p1 -s < $P)) 2>/dev/null || { echo "$id $prop ERROR patch"; git -C /repo worktree remove --force $W; continue; }
  VERIF_REPO=$W ./run.py $prop --tier quick > /tmp/sm-$id.out 2>&1; e=$?
  n=$(grep -c "^VIOLATION" /tmp/sm-$id.out)
  if [ $e -eq 1 ] && [ $n -gt 0 ]; then r=CAUGHT; elif [ $e -eq 0 ]; then r=MISSED; else r="ERROR(exit=$e)"; fi
  echo "$id $prop $r violations=$n $(grep 'tier=' /tmp/sm-$id.out | tail -1 | sed 's/.*obligations=/obligations=/')"
  git -C /repo worktree remove --force $W; rm -f /tmp/sm-$id.out
done
