#!/bin/sh
# usage: mut.sh <prop> <sed-expr> <file-relative-to-repo> [tier]  — run a check against a scratch copy with a one-line mutation
D=$(mktemp -d /tmp/mutXXXX); cp -r /repo/simfile $D/; sed -i "$2" $D/$3
if cmp -s $D/$3 /repo/$3; then echo "MUTATION DID NOT APPLY"; rm -rf $D; exit 2; fi
(cd $D && /venv/bin/python -m pytest -q -p no:cacheprovider -x simfile 2>&1 | tail -1)
VERIF_REPO=$D /verif/run.py $1 --tier ${4:-quick} > $D/out.txt; echo "exit=$?"; grep -c "^VIOLATION" $D/out.txt; grep "^VIOLATION\|tier=" $D/out.txt | head -${5:-6}
rm -rf $D
