"""xh — CrossHair driver: one `crosshair check` process per obligation (a PEP-316 contract on a private harness
function that calls the real repository code), run in parallel; verdicts mapped to discharged / violated / inconclusive;
every obligation has a reachability twin (same function, `post: False`) that must be refuted."""
import ast, concurrent.futures as cf, importlib, inspect, json, os, re, subprocess, sys, tempfile, time

VERIF = os.path.dirname(os.path.dirname(os.path.abspath(__file__)))
CROSSHAIR = os.path.join(VERIF, ".venv", "bin", "crosshair")
HARNESS_DIR = os.path.join(VERIF, "harness")


def _env():
    env = dict(os.environ)
    pp = [HARNESS_DIR, VERIF]
    if os.environ.get("VERIF_REPO"):
        pp.insert(0, os.environ["VERIF_REPO"])
    env["PYTHONPATH"] = os.pathsep.join(pp + ([env["PYTHONPATH"]] if env.get("PYTHONPATH") else []))
    env["PYTHONWARNINGS"] = "ignore"
    env["PYTHONHASHSEED"] = "0"
    return env


def find_functions(path):
    """name -> (lineno of def, docstring, arg names)"""
    src = open(path).read()
    out = {}
    for node in ast.parse(src).body:
        if isinstance(node, ast.FunctionDef):
            out[node.name] = (node.lineno, ast.get_docstring(node, clean=False) or "", [a.arg for a in node.args.args])
    return out, src


_CALL = re.compile(r"when calling (\w+)\((.*)\)\s*(?:\(which (?:returns|raises).*)?$", re.S)


def parse_call(msg, argnames):
    """'false when calling f(a = 1, 'x')' -> dict argname -> python value, or None"""
    m = _CALL.search(msg.strip())
    if not m:
        return None
    text = m.group(2)
    # strip a trailing " (which returns ...)" that the greedy group may have swallowed
    k = text.rfind(") (which ")
    if k >= 0:
        text = text[:k]
    try:
        call = ast.parse("f(" + text + ")", mode="eval").body
        vals = {}
        for i, a in enumerate(call.args):
            vals[argnames[i]] = ast.literal_eval(a)
        for kw in call.keywords:
            vals[kw.arg] = ast.literal_eval(kw.value)
        return vals
    except Exception:
        return None


def _run_one(path, func, line, timeout, twin=False):
    t0 = time.time()
    cmd = [CROSSHAIR, "check", "--report_all", "--per_condition_timeout", str(timeout), f"{path}:{line}"]
    try:
        p = subprocess.run(cmd, capture_output=True, text=True, timeout=timeout * 1.6 + 60, env=_env(), cwd=HARNESS_DIR)
        out = p.stdout + p.stderr
    except subprocess.TimeoutExpired as e:
        out = "TIMEOUT (outer)"
    wall = round(time.time() - t0, 2)
    lines = [l for l in out.splitlines() if (": error:" in l or ": info:" in l) and os.path.basename(path) in l]
    verdict, msg = "inconclusive", out.strip()[-600:]
    for l in lines:
        if ": error:" in l:
            verdict, msg = "error", l.split(": error:", 1)[1].strip()
            # multi-line messages: keep the remainder of the output after this line
            idx = out.find(l)
            msg = out[idx:].split(": error:", 1)[1].strip()
            break
        if "Confirmed over all paths" in l:
            verdict, msg = "confirmed", l
        elif "Not confirmed" in l and verdict != "confirmed":
            verdict, msg = "not_confirmed", l
        elif "Unable to meet precondition" in l and verdict not in ("confirmed",):
            verdict, msg = "no_precondition", l
    return dict(verdict=verdict, message=msg, wall_s=wall)


def make_twin(src, func, lineno):
    """source of a twin module: same file, but the target function's `post:` lines become `post: False`"""
    lines = src.split("\n")
    i = lineno  # 0-based index of the line after 'def'
    out = list(lines)
    in_doc = False
    n = 0
    for j in range(lineno, min(len(lines), lineno + 80)):
        s = lines[j].strip()
        if s.startswith("post:"):
            out[j] = lines[j][: len(lines[j]) - len(lines[j].lstrip())] + "post: False"
            n += 1
        if s.startswith('"""') and j > lineno and in_doc:
            break
        if s.startswith('"""'):
            in_doc = True
            if s.count('"""') >= 2:
                break
    return "\n".join(out) if n else None


def add_pre(src, lineno, extra):
    """copy of the module source with an extra `pre:` line added to the docstring of the function defined at lineno"""
    lines = src.split("\n")
    for j in range(lineno, min(len(lines), lineno + 80)):
        s = lines[j].strip()
        if s.startswith("pre:") or s.startswith("post:"):
            indent = lines[j][: len(lines[j]) - len(lines[j].lstrip())]
            lines.insert(j, indent + "pre: " + extra)
            return "\n".join(lines)
    return None


def run(path, obligations, timeout, workers=16, twins=True, twin_timeout=40):
    """obligations: list of dict(name, func, bounds, [timeout]). Returns list of (ob, result-dict)."""
    funcs, src = find_functions(path)
    base = os.path.join(VERIF, ".xhtmp")  # not on sys.path: CrossHair imports each variant file by its own path
    os.makedirs(base, exist_ok=True)
    tmpdir = tempfile.mkdtemp(prefix="run_", dir=base)
    jobs = []
    try:
        twin_paths, main_paths = {}, {}
        for n, ob in enumerate(obligations):
            f = ob["func"]
            if f not in funcs:
                continue
            vsrc = src
            if ob.get("pre"):
                vsrc = add_pre(src, funcs[f][0], ob["pre"])
                if vsrc is None:
                    continue
                vp = os.path.join(tmpdir, "v%d_%s" % (n, os.path.basename(path)))
                open(vp, "w").write(vsrc)
                main_paths[n] = vp
            else:
                main_paths[n] = path
            if twins:
                tsrc = make_twin(vsrc, f, funcs[f][0])
                if tsrc:
                    tp = os.path.join(tmpdir, "twin%d_%s.py" % (n, f))
                    open(tp, "w").write(tsrc)
                    twin_paths[n] = tp
        results = {}
        with cf.ThreadPoolExecutor(max_workers=workers) as ex:
            futs = {}
            for n, ob in enumerate(obligations):
                f = ob["func"]
                if n not in main_paths:
                    results[(n, "main")] = dict(verdict="inconclusive", message="function not found in harness", wall_s=0)
                    continue
                futs[ex.submit(_run_one, main_paths[n], f, funcs[f][0] + 1, ob.get("timeout", timeout))] = (n, "main")
                if n in twin_paths:
                    futs[ex.submit(_run_one, twin_paths[n], f, funcs[f][0] + 1, twin_timeout, True)] = (n, "twin")
            for fu in cf.as_completed(futs):
                results[futs[fu]] = fu.result()
    finally:
        import shutil
        shutil.rmtree(tmpdir, ignore_errors=True)
    out = []
    for n, ob in enumerate(obligations):
        f = ob["func"]
        r = results.get((n, "main"))
        tw = results.get((n, "twin"))
        res = dict(status="inconclusive", reason="", paths=1, checks=1, branches=1, solver_s=0.0, wall_s=r["wall_s"], xh_verdict=r["verdict"],
                   twin=(tw or {}).get("verdict"))
        if r["verdict"] == "confirmed":
            if tw is not None and tw["verdict"] == "confirmed":
                res.update(status="inconclusive", reason="VACUOUS: the reachability twin (post: False) was confirmed", harness_error=True, fatal=True)
            elif tw is not None and tw["verdict"] != "error":
                res.update(status="discharged", reason="twin not refuted within its budget (%s); main run confirmed over all paths, which CrossHair reports only after at least one path returned" % tw["verdict"])
            else:
                res.update(status="discharged")
        elif r["verdict"] == "error" and "ModelLimit" in r["message"]:
            res.update(reason="model limit: the code used the model environment in a way the model cannot answer: " + r["message"][:200])
        elif r["verdict"] == "error":
            args = parse_call(r["message"], funcs[f][2]) if f in funcs else None
            res.update(status="violated", cex=args, info=r["message"][:500])
            if args is None:
                res.update(status="inconclusive", reason="counterexample arguments could not be parsed: " + r["message"][:300])
        else:
            res.update(reason="CrossHair: %s %s" % (r["verdict"], r["message"][-200:]))
        out.append((ob, res))
    return out


def replay(modname, data):
    """Re-run the harness function on the concrete counterexample in plain Python (no CrossHair tracing).
    Returns (reproduced, message)."""
    sys.path.insert(0, HARNESS_DIR)
    mod = importlib.import_module(modname)
    f = getattr(mod, data["func"])
    args = data.get("cex") or {}
    doc = f.__doc__ or ""
    for line in doc.splitlines():
        s = line.strip()
        if s.startswith("pre:"):
            ns = dict(vars(mod)); ns.update(args)
            try:
                if not eval(s[4:].strip(), ns):
                    return False, "counterexample violates the precondition %r" % s
            except Exception as e:
                return False, "precondition %r not evaluable: %r" % (s, e)
    try:
        r = f(**args)
    except Exception as e:
        if type(e).__name__ == "ModelLimit":
            return False, "model limit reached in replay (not a violation): %s" % e
        return True, "%s(%s) raises %s: %s" % (data["func"], args, type(e).__name__, e)
    detail = getattr(mod, "LAST", None)
    return (not r), "%s(%s) returned %r%s" % (data["func"], args, r, ("; " + str(detail)) if detail else "")
