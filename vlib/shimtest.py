"""Validation of the symx stand-ins (DESIGN 2.2): the repository's own timing/notes unit tests are executed inside the
shim-loaded modules with purely concrete values ("push the existing tests through the symbolic interpreter")."""
import io, sys, unittest, importlib

TEST_MODULES = ["simfile.timing.tests.test_module", "simfile.timing.tests.test_engine", "simfile.timing.tests.test_displaybpm",
                "simfile.notes.tests.test_module", "simfile.notes.tests.test_group", "simfile.notes.tests.test_count", "simfile.notes.tests.test_timed"]
# tests that cannot pass under stand-ins for a reason unrelated to arithmetic (they assert the class name in a repr)
EXCLUDE = {}


def run():
    from vlib import symx
    mods = symx.load_shimmed(tuple(TEST_MODULES))
    suite = unittest.TestSuite()
    loader = unittest.TestLoader()
    for m in TEST_MODULES:
        suite.addTests(loader.loadTestsFromModule(mods[m]))
    symx.CTL = symx.Ctl()
    out = io.StringIO()
    import os
    cwd = os.getcwd()
    os.chdir(symx.REPO)   # the tests open testdata/ by relative path
    try:
        res = unittest.TextTestRunner(stream=out, verbosity=0).run(suite)
    finally:
        os.chdir(cwd)
    bad = [(str(t), tb.strip().splitlines()[-1]) for t, tb in res.failures + res.errors if str(t) not in EXCLUDE]
    return res.testsRun, bad


def ob_shim_differential(budget_s=120):
    from vlib import symx
    r = symx.Result()
    n, bad = run()
    r.paths = n
    r.twin_sat = n > 0
    if bad:
        r.status = "inconclusive"
        r.reason = "stand-in validation failed: %d of %d repository tests fail inside the shims: %s" % (len(bad), n, bad[:3])
    else:
        r.status = "discharged"
        r.reason = "%d repository tests pass inside the shims" % n
    d = r.as_dict()
    if bad:
        d["harness_error"] = True
        d["fatal"] = True
    return d


if __name__ == "__main__":
    sys.path.insert(0, "/verif")
    n, bad = run()
    print(n, "tests run inside the shims;", len(bad), "failing")
    for b in bad:
        print("  ", b)


CORPUS = ["testdata/nekonabe/nekonabe.sm", "testdata/Springtime/Springtime.ssc", "testdata/L9/L9.ssc", "testdata/blank/blank.sm", "testdata/blank/blank.ssc"]


def corpus_differential():
    """every corpus chart through the shim-loaded modules and through the real modules: decoded notes, from_notes text,
    group/ungroup round trip, note times and hittability must agree (times within 1e-9 s)."""
    import os
    from fractions import Fraction
    from vlib import symx
    mods = symx.load_shimmed(("simfile", "simfile.notes", "simfile.notes.group", "simfile.notes.timed", "simfile.timing", "simfile.timing.engine"))
    import simfile as real
    from simfile.notes import NoteData as RND
    from simfile.notes.group import group_notes as rgroup, ungroup_notes as rungroup, OrphanedNotes as ROrph
    from simfile.notes.timed import time_notes as rtime, UnhittableNotes as RUn
    from simfile.timing import TimingData as RTD
    S = mods["simfile"]; N = mods["simfile.notes"]; G = mods["simfile.notes.group"]; TN = mods["simfile.notes.timed"]; T = mods["simfile.timing"]
    symx.CTL = symx.Ctl()
    bad, n = [], 0
    key = lambda x: (int(x.player), Fraction(int(x.beat.numerator), int(x.beat.denominator)), int(x.column), x.note_type.value, x.keysound_index)
    for rel in CORPUS:
        path = os.path.join(symx.REPO, rel)
        text = open(path, encoding="utf-8").read()
        a = real.loads(text, strict=False); b = S.loads(text, strict=False)
        if dict(a) != dict(b) or len(a.charts) != len(b.charts):
            bad.append((rel, "loaded properties differ")); continue
        for i, (ca, cb) in enumerate(zip(a.charts, b.charts)):
            n += 1
            na, nb = list(RND(ca)), list(N.NoteData(cb))
            if [key(x) for x in na] != [key(x) for x in nb]:
                bad.append((rel, i, "decoded notes differ")); continue
            cols = RND(ca).columns
            if str(RND.from_notes(na, cols)) != str(N.NoteData.from_notes(nb, cols)):
                bad.append((rel, i, "from_notes text differs"))
            ga = list(rungroup(rgroup(na, join_heads_to_tails=True, orphaned_head=ROrph.KEEP_ORPHAN, orphaned_tail=ROrph.KEEP_ORPHAN), orphaned_notes=ROrph.KEEP_ORPHAN))
            gb = list(G.ungroup_notes(G.group_notes(nb, join_heads_to_tails=True, orphaned_head=G.OrphanedNotes.KEEP_ORPHAN, orphaned_tail=G.OrphanedNotes.KEEP_ORPHAN), orphaned_notes=G.OrphanedNotes.KEEP_ORPHAN))
            if [key(x) for x in ga] != [key(x) for x in gb]:
                bad.append((rel, i, "group/ungroup differs"))
            try:
                ta = list(rtime(RND(ca), RTD(a, ca), RUn.TAP_TO_FAKE)); tb = list(TN.time_notes(N.NoteData(cb), T.TimingData(b, cb), TN.UnhittableNotes.TAP_TO_FAKE))
            except Exception as e:
                bad.append((rel, i, "time_notes raised %r" % (e,))); continue
            if len(ta) != len(tb) or any(key(x.note) != key(y.note) or abs(float(x.time) - float(Fraction(symx.term_of(y.time)))) > 1e-9 for x, y in zip(ta, tb)):
                bad.append((rel, i, "timed notes differ"))
    return n, bad


def ob_corpus_differential(budget_s=300):
    from vlib import symx
    r = symx.Result()
    n, bad = corpus_differential()
    r.paths = n
    r.twin_sat = n > 0
    if bad:
        r.status = "inconclusive"
        r.reason = "stand-ins disagree with the real types on %d corpus charts: %s" % (len(bad), bad[:3])
    else:
        r.status = "discharged"
        r.reason = "%d corpus charts agree between the shim-loaded and the real modules" % n
    d = r.as_dict()
    if bad:
        d["harness_error"] = True
        d["fatal"] = True
    return d
