"""Validation of the symx stand-ins (DESIGN 2.2): the repository's own timing/notes unit tests are executed inside the
shim-loaded modules with purely concrete values ("push the existing tests through the symbolic interpreter")."""
import io, sys, unittest, importlib

TEST_MODULES = ["simfile.timing.tests.test_module", "simfile.timing.tests.test_engine", "simfile.timing.tests.test_displaybpm",
                "simfile.notes.tests.test_module", "simfile.notes.tests.test_group", "simfile.notes.tests.test_count", "simfile.notes.tests.test_timed"]
# tests that cannot pass under stand-ins for a reason unrelated to arithmetic (they assert the class name in a repr)
EXCLUDE = {}


def run():
    from vlib import symx
    mods = symx.load_shimmed(tuple(TEST_MODULES))
    suite = unittest.TestSuite()
    loader = unittest.TestLoader()
    for m in TEST_MODULES:
        suite.addTests(loader.loadTestsFromModule(mods[m]))
    symx.CTL = symx.Ctl()
    out = io.StringIO()
    import os
    cwd = os.getcwd()
    os.chdir(symx.REPO)   # the tests open testdata/ by relative path
    try:
        res = unittest.TextTestRunner(stream=out, verbosity=0).run(suite)
    finally:
        os.chdir(cwd)
    bad = [(str(t), tb.strip().splitlines()[-1]) for t, tb in res.failures + res.errors if str(t) not in EXCLUDE]
    return res.testsRun, bad


def ob_shim_differential(budget_s=120):
    from vlib import symx
    r = symx.Result()
    n, bad = run()
    r.paths = n
    r.twin_sat = n > 0
    if bad:
        r.status = "inconclusive"
        r.reason = "stand-in validation failed: %d of %d repository tests fail inside the shims: %s" % (len(bad), n, bad[:3])
    else:
        r.status = "discharged"
        r.reason = "%d repository tests pass inside the shims" % n
    d = r.as_dict()
    if bad:
        d["harness_error"] = True
        d["fatal"] = True
    return d


if __name__ == "__main__":
    sys.path.insert(0, "/verif")
    n, bad = run()
    print(n, "tests run inside the shims;", len(bad), "failing")
    for b in bad:
        print("  ", b)
