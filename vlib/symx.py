"""symx — re-execution dynamic symbolic execution of the repository's numeric code.

The repository's own module source is compiled from /repo on every run (never from
__pycache__) and executed with solver-backed stand-ins for fractions.Fraction, float,
decimal.Decimal and int().  Every bool() of a symbolic condition is a DFS decision
point decided by z3.  See DESIGN.md section 2.

Representation of numbers: every shim value holds
  _v  : exact value — a python Fraction (concrete) or a z3 Real/Int term
  _nd : optional (z3 Int term n, concrete positive int d) with value n/d, kept while
        arithmetic stays inside "integer-numerator over constant denominator"; with it
        round / floor / mod / format are pure linear integer arithmetic.
"""
import sys, os, types, numbers, importlib, importlib.abc, importlib.util, importlib.machinery
import builtins, time, math as _math, re
import fractions as _rf
import decimal as _rd
import z3

RealFraction = _rf.Fraction
RealDecimal = _rd.Decimal


class Unsupported(Exception):
    """The engine met a construct it cannot model: the obligation is inconclusive."""


class SolverUnknown(Unsupported):
    pass


class Budget(Exception):
    pass


class Exhausted(Exception):
    """A value-choice point has no untried value left (raised while re-executing after a backtrack)."""


class Prune(Exception):
    """The harness's own precondition is infeasible under the current case split: the path is dropped (not inconclusive)."""


QUERY_TIMEOUT_MS = 10000
# When set, float() of a symbolic rational whose denominator is not a power of two first pins the numerator (value choice)
# and all-concrete float arithmetic is done in IEEE doubles, so rounding of concrete values is modelled faithfully.
# Used by harnesses whose paths pin every position anyway (C08); the timing harnesses keep floats as exact reals.
FLOAT_FAITHFUL = False


# ------------------------------------------------------------------ path control
class Ctl:
    def __init__(self):
        self.trail = []  # list of [choice, alt_pending]
        self.pos = 0
        self.solver = None
        self.checks = 0
        self.solver_s = 0.0
        self.branches = 0
        self.pre = []  # preconditions added by the harness (for reporting)
        self.deadline = None
        self.aux = 0
        self.hashed = []
        self.hashed_sym = False
        self.new_solver()

    def new_solver(self):
        self.solver = z3.Solver()
        self.solver.set("timeout", QUERY_TIMEOUT_MS)
        self.model = None   # a model of the current assertions, when one is known (saves one query per new decision)

    def reset_run(self):
        self.pos = 0
        self.aux = 0
        self.hashed = []          # numbers hashed on this path: [(shim object, hash token)]
        self.hashed_sym = False   # a symbolic number has been hashed on this path
        self.new_solver()

    def assume(self, *conds):
        for c in conds:
            self.solver.add(c)
        self.model = None

    def current_model(self):
        if self.model is None:
            r = self.check()
            if r == z3.unsat:
                raise Unsupported("infeasible path condition")
            if r != z3.sat:
                raise SolverUnknown("solver unknown: " + self.solver.reason_unknown())
            self.model = self.solver.model()
        return self.model

    def check(self, *extra):
        if self.deadline is not None and time.time() > self.deadline:
            raise Budget("wall-clock budget exhausted inside a path")
        t = time.time()
        r = self.solver.check(*extra)
        self.checks += 1
        self.solver_s += time.time() - t
        return r

    def _sat(self, c):
        r = self.check(c)
        if r == z3.unknown:
            raise SolverUnknown("solver unknown on branch: " + self.solver.reason_unknown())
        return r == z3.sat

    def branch(self, cond):
        cond = z3.simplify(cond)
        if z3.is_true(cond):
            return True
        if z3.is_false(cond):
            return False
        if self.pos < len(self.trail):
            choice = self.trail[self.pos][0]
            if choice == "conc":
                raise Unsupported("non-deterministic re-execution (choice point mismatch)")
        else:
            m = self.current_model()
            v = m.eval(cond, model_completion=True)
            side = True if z3.is_true(v) else False if z3.is_false(v) else None
            if side is None:
                can_t = self._sat(cond)
                can_f = self._sat(z3.Not(cond))
                m_t = m_f = None
            else:
                # the cached model witnesses one side; one query decides the other
                r = self.check(z3.Not(cond) if side else cond)
                if r == z3.unknown:
                    raise SolverUnknown("solver unknown on branch: " + self.solver.reason_unknown())
                other_model = self.solver.model() if r == z3.sat else None
                can_t = side or r == z3.sat
                can_f = (not side) or r == z3.sat
                m_t = m if side else other_model
                m_f = other_model if side else m
            if can_t and can_f:
                self.trail.append([True, True])
                choice = True
            elif can_t:
                self.trail.append([True, False])
                choice = True
            elif can_f:
                self.trail.append([False, False])
                choice = False
            else:
                raise Unsupported("infeasible path condition")
            self.branches += 1
            self.pos += 1
            self.solver.add(cond if choice else z3.Not(cond))
            self.model = m_t if choice else m_f
            return choice
        self.pos += 1
        self.solver.add(cond if choice else z3.Not(cond))
        self.model = None
        return choice

    def choose_value(self, t):
        """Pin the Int term t to a concrete value; a multi-way choice point recorded in the trail (values already tried
        are remembered, so re-execution does not depend on which model the solver happens to return)."""
        if self.pos < len(self.trail):
            e = self.trail[self.pos]
            if e[0] != "conc":
                raise Unsupported("non-deterministic re-execution (choice point mismatch)")
            if e[2] is None:
                for v in e[1]:
                    self.solver.add(t != v)
                self.model = None
                r = self.check()
                if r == z3.unsat:
                    raise Exhausted()
                if r != z3.sat:
                    raise SolverUnknown("solver unknown while choosing a value")
                v = self.solver.model().eval(t, model_completion=True).as_long()
                e[1].append(v)
                e[2] = v
            v = e[2]
        else:
            v = self.current_model().eval(t, model_completion=True).as_long()
            self.trail.append(["conc", [v], v])
            self.branches += 1
            self.pos += 1
            self.solver.add(t == v)   # the cached model satisfies t == v: it stays valid
            return v
        self.pos += 1
        self.solver.add(t == v)
        self.model = None
        return v

    def backtrack(self):
        while self.trail:
            e = self.trail[-1]
            if e[0] == "conc":
                if e[2] is not None:
                    e[2] = None  # ask for the next untried value on re-execution
                    return True
                self.trail.pop()  # exhausted
                continue
            choice, alt = e
            if alt:
                self.trail[-1] = [not choice, False]
                return True
            self.trail.pop()
        return False


CTL = Ctl()


def ctl():
    return CTL


# ------------------------------------------------------------------ term helpers
def is_term(x):
    return isinstance(x, z3.ExprRef)


def z(x):
    if is_term(x):
        return x
    if isinstance(x, bool):
        return z3.IntVal(int(x))
    if isinstance(x, int):
        return z3.IntVal(x)
    if isinstance(x, RealFraction):
        if x.denominator == 1:
            return z3.IntVal(x.numerator)
        return z3.RealVal(str(x.numerator)) / z3.RealVal(str(x.denominator))
    raise Unsupported(f"z {type(x)}")


def zr(x):
    if not is_term(x):
        f = RealFraction(x)
        return z3.RealVal(str(f.numerator)) if f.denominator == 1 else z3.RealVal(str(f.numerator)) / z3.RealVal(str(f.denominator))
    if z3.is_int_value(x):
        return z3.RealVal(x.as_long())
    return z3.ToReal(x) if x.sort() == z3.IntSort() else x


def _norm(x):
    """python exact number -> int or Fraction"""
    if isinstance(x, RealFraction) and x.denominator == 1:
        return int(x)
    return x


def inverse_of(t):
    """x if t is structurally the term 1/x (how harnesses supply symbolic BPMs), else None"""
    if is_term(t) and t.decl().kind() == z3.Z3_OP_DIV:
        n = t.arg(0)
        if z3.is_rational_value(n) and n.numerator_as_long() == 1 and n.denominator_as_long() == 1:
            return t.arg(1)
    return None


def reciprocal(x):
    return z3.RealVal(1) / x


def poly_identity(a, b):
    """True iff z3's rewriter normalises a - b to 0 (sum-of-monomials form)"""
    d = z3.simplify(zr(a) - zr(b), som=True, arith_lhs=True, hoist_mul=False)
    return z3.is_rational_value(d) and d.numerator_as_long() == 0


def arith(op, a, b):
    """a, b: python exact numbers (int/Fraction) or z3 terms."""
    if not is_term(a) and not is_term(b):
        if op == "+": return _norm(a + b)
        if op == "-": return _norm(a - b)
        if op == "*": return _norm(a * b)
        if op == "/":
            if b == 0:
                raise ZeroDivisionError("division by zero")
            return _norm(RealFraction(a) / RealFraction(b))
    if op == "/":
        if not is_term(b):
            if b == 0:
                raise ZeroDivisionError("division by zero")
            return zr(a) * zr(_norm(RealFraction(1) / RealFraction(b)))
        inv = inverse_of(b)
        if inv is not None:
            return zr(a) * inv  # a / (1/x) == a * x  (x != 0 by construction)
        return zr(a) / zr(b)
    za, zb = z(a), z(b)
    if za.sort() != zb.sort():
        za, zb = zr(a), zr(b)
    if op == "+": return za + zb
    if op == "-": return za - zb
    if op == "*": return za * zb
    raise Unsupported(op)


class SymBool:
    def __init__(self, e):
        self.e = e

    def __bool__(self):
        return CTL.branch(self.e)

    def __repr__(self):
        return f"SymBool({self.e})"


def cmp(op, a, b):
    if not is_term(a) and not is_term(b):
        return {"<": a < b, "<=": a <= b, ">": a > b, ">=": a >= b, "==": a == b, "!=": a != b}[op]
    za, zb = z(a), z(b)
    if za.sort() != zb.sort() or za.sort() != z3.IntSort():
        ia, ib = as_int_term(z3.simplify(za) if is_term(za) else za), as_int_term(z3.simplify(zb) if is_term(zb) else zb)
        if ia is not None and ib is not None:
            za, zb = ia, ib
        else:
            za, zb = zr(a), zr(b)
    e = {"<": za < zb, "<=": za <= zb, ">": za > zb, ">=": za >= zb, "==": za == zb, "!=": za != zb}[op]
    return SymBool(e)


def bterm(b):
    """z3 Bool for python bool / SymBool"""
    if isinstance(b, SymBool):
        return b.e
    if is_term(b):
        return b
    return z3.BoolVal(bool(b))


def as_int_term(t):
    """Int term equal to the Real term t when t is built from to_real(int terms), integer numerals, +, - and *; else None.
    (z3 answers unknown on trivial mixed problems such as f <= a < f+1, f != a written over to_real; over Int it is immediate.)"""
    if not is_term(t):
        f = RealFraction(t)
        return z3.IntVal(f.numerator) if f.denominator == 1 else None
    if t.sort() == z3.IntSort():
        return t
    k = t.decl().kind()
    if k == z3.Z3_OP_TO_REAL:
        return t.arg(0)
    if z3.is_rational_value(t):
        return z3.IntVal(t.numerator_as_long()) if t.denominator_as_long() == 1 else None
    if k in (z3.Z3_OP_ADD, z3.Z3_OP_MUL, z3.Z3_OP_SUB, z3.Z3_OP_UMINUS):
        args = [as_int_term(a) for a in t.children()]
        if any(a is None for a in args):
            return None
        if k == z3.Z3_OP_ADD:
            return z3.Sum(args)
        if k == z3.Z3_OP_MUL:
            r = args[0]
            for a in args[1:]:
                r = r * a
            return r
        if k == z3.Z3_OP_SUB:
            r = args[0]
            for a in args[1:]:
                r = r - a
            return r
        return -args[0]
    if k == z3.Z3_OP_ITE:
        a, b = as_int_term(t.arg(1)), as_int_term(t.arg(2))
        if a is None or b is None:
            return None
        return z3.If(t.arg(0), a, b)
    return None


def floor_term(t):
    """floor of a Real term as a fresh Int f with the defining constraint f <= t < f+1 asserted (equivalent to ToInt,
    but leaves the solver a plain mixed integer/real linear problem; ToInt terms made z3 answer unknown)."""
    if is_term(t):
        if t.sort() == z3.IntSort():
            return t
        t = z3.simplify(t)
        if z3.is_rational_value(t):
            return z3.IntVal(t.numerator_as_long() // t.denominator_as_long())
        ti = as_int_term(t)
        if ti is not None:
            return ti
        CTL.aux += 1
        f = z3.Int("fl!%d" % CTL.aux)
        CTL.assume(z3.ToReal(f) <= t, t < z3.ToReal(f) + 1)
        return f
    return _math.floor(t)


def round_half_even_term(t):
    if not is_term(t):
        return round(t)
    if t.sort() == z3.IntSort():
        return t
    f = floor_term(t)
    d = t - z3.ToReal(f)
    half = z3.RealVal("1/2")
    return z3.If(d < half, f, z3.If(d > half, f + 1, z3.If(f % 2 == 0, f, f + 1)))


def trunc_term(t):
    if not is_term(t):
        return _math.trunc(t)
    if t.sort() == z3.IntSort():
        return t
    f = floor_term(t)
    return z3.If(z3.Or(t >= 0, z3.ToReal(f) == t), f, f + 1)


def _content(n):
    """gcd of all integer coefficients of a linear Int term (1 if unknown structure)"""
    if z3.is_int_value(n):
        return abs(n.as_long())
    k = n.decl().kind()
    if k == z3.Z3_OP_MUL and n.num_args() == 2 and z3.is_int_value(n.arg(0)):
        return abs(n.arg(0).as_long())
    if k == z3.Z3_OP_ADD:
        g = 0
        for a in n.children():
            g = _math.gcd(g, _content(a))
            if g == 1:
                return 1
        return g
    return 1


def _div_exact(n, g):
    if z3.is_int_value(n):
        return z3.IntVal(n.as_long() // g)
    k = n.decl().kind()
    if k == z3.Z3_OP_MUL:
        c = n.arg(0).as_long() // g
        return n.arg(1) if c == 1 else c * n.arg(1)
    if k == z3.Z3_OP_ADD:
        return z3.Sum([_div_exact(a, g) for a in n.children()])
    raise Unsupported("div_exact")


def nd_reduce(n, d):
    """cancel the constant common factor of numerator term and denominator"""
    if not is_term(n) or d == 1:
        return n, d
    n = z3.simplify(n, som=True)
    g = _math.gcd(d, _content(n))
    if g > 1:
        return z3.simplify(_div_exact(n, g)), d // g
    return n, d


# --- integer-form helpers: value n/d, n z3 Int term (or python int), d concrete int > 0
def nd_floor(n, d):
    if d == 1:
        return n
    if not is_term(n):
        return n // d
    return n / d  # z3 Int division: floor for positive divisor


def nd_round(n, d):
    """round-half-even of n/d in linear integer arithmetic"""
    if d == 1:
        return n
    if not is_term(n):
        return round(RealFraction(n, d))
    num = 2 * n + d
    q = num / (2 * d)
    tie = (num % (2 * d)) == 0
    return z3.If(z3.And(tie, q % 2 != 0), q - 1, q)


def nd_trunc(n, d):
    if d == 1:
        return n
    if not is_term(n):
        return _math.trunc(RealFraction(n, d))
    return z3.If(n >= 0, n / d, -((-n) / d))


# ------------------------------------------------------------------ values
class _Num:
    __slots__ = ()


def nd_of(x):
    """(n, d) integer form of x, or None"""
    if isinstance(x, bool):
        return (int(x), 1)
    if isinstance(x, int):
        return (x, 1)
    if isinstance(x, SymInt):
        return (x.t, 1)
    if isinstance(x, _RatLike):
        if x._nd is not None:
            return x._nd
        if not is_term(x._v):
            f = RealFraction(x._v)
            return (f.numerator, f.denominator)
        if x._v.sort() == z3.IntSort():
            return (x._v, 1)
        return None
    if isinstance(x, RealFraction):
        return (x.numerator, x.denominator)
    if isinstance(x, float):
        f = RealFraction(x)
        return (f.numerator, f.denominator)
    if isinstance(x, RealDecimal):
        f = RealFraction(x)
        return (f.numerator, f.denominator)
    return None


def _lit(t):
    """z3 numeral -> python exact number; other terms unchanged"""
    if z3.is_int_value(t):
        return t.as_long()
    if z3.is_rational_value(t):
        return _norm(RealFraction(t.numerator_as_long(), t.denominator_as_long()))
    return t


def term_of(x):
    """z3 arithmetic term (Int or Real) or python exact number for x."""
    if is_term(x):
        return _lit(x)
    if isinstance(x, bool):
        return int(x)
    if isinstance(x, int):
        return x
    if isinstance(x, SymInt):
        return x.t
    if isinstance(x, _RatLike):
        return x._v
    if isinstance(x, RealFraction):
        return _norm(x)
    if isinstance(x, float):
        if x != x or x in (float("inf"), float("-inf")):
            raise Unsupported("non-finite float")
        return _norm(RealFraction(x))
    if isinstance(x, RealDecimal):
        return _norm(RealFraction(x))
    raise Unsupported(f"term_of {type(x)}")


def _coerce_other(o):
    try:
        return term_of(o)
    except Unsupported:
        return NotImplemented


def concretize(x):
    """Pin a symbolic integer to a concrete value by a solver-guided case split
    (each value is its own path; all values are eventually explored)."""
    if isinstance(x, SymInt):
        t = x.t
    elif is_term(x):
        t = x
    else:
        return x
    t = z3.simplify(t)
    if z3.is_int_value(t):
        return t.as_long()
    return CTL.choose_value(t)


class SymInt(_Num):
    __slots__ = ("t",)

    def __init__(self, t):
        self.t = t

    def _bin(self, o, op, rev=False):
        if isinstance(o, _RatLike) or isinstance(o, (float, RealFraction, RealDecimal)):
            return NotImplemented
        b = _coerce_other(o)
        if b is NotImplemented:
            return NotImplemented
        a = self.t
        if rev:
            a, b = b, a
        return wrap_int(arith(op, a, b))

    def __add__(self, o): return self._bin(o, "+")
    def __radd__(self, o): return self._bin(o, "+", True)
    def __sub__(self, o): return self._bin(o, "-")
    def __rsub__(self, o): return self._bin(o, "-", True)
    def __mul__(self, o): return self._bin(o, "*")
    def __rmul__(self, o): return self._bin(o, "*", True)

    def __truediv__(self, o):
        return FracShim(self) / o

    def __rtruediv__(self, o):
        return FracShim(o) / FracShim(self)

    def __floordiv__(self, o):
        if isinstance(o, int) and o > 0:
            return wrap_int(self.t / o)
        if isinstance(o, SymInt) or isinstance(o, int):
            return FracShim(self) // o
        return NotImplemented

    def __rfloordiv__(self, o):
        return FracShim(o) // FracShim(self)

    def __mod__(self, o):
        if isinstance(o, int) and o > 0:
            return wrap_int(self.t % o)
        if isinstance(o, (SymInt, int)):
            r = FracShim(self) % o
            return wrap_int(r._nd[0]) if r._nd and r._nd[1] == 1 else wrap_int(z3.ToInt(zr(r._v)))
        return NotImplemented

    def __rmod__(self, o):
        r = FracShim(o) % FracShim(self)
        return wrap_int(z3.ToInt(zr(r._v)))

    def __divmod__(self, o):
        return (self // o, self % o)

    def __rdivmod__(self, o):
        return (o // self, o % self)

    def __neg__(self): return wrap_int(arith("-", 0, self.t))
    def __pos__(self): return self
    def __abs__(self): return wrap_int(z3.If(self.t >= 0, self.t, -self.t))
    def __lt__(self, o): return cmp("<", self.t, term_of(o))
    def __le__(self, o): return cmp("<=", self.t, term_of(o))
    def __gt__(self, o): return cmp(">", self.t, term_of(o))
    def __ge__(self, o): return cmp(">=", self.t, term_of(o))

    def __eq__(self, o):
        b = _coerce_other(o)
        return NotImplemented if b is NotImplemented else cmp("==", self.t, b)

    def __ne__(self, o):
        b = _coerce_other(o)
        return NotImplemented if b is NotImplemented else cmp("!=", self.t, b)

    def __bool__(self):
        return CTL.branch(self.t != 0)

    def __hash__(self):
        return hash(concretize(self))

    def __index__(self):
        return concretize(self)

    def __int__(self):
        return concretize(self)

    def __round__(self, nd=None):
        return self

    def __floor__(self): return self
    def __ceil__(self): return self
    def __trunc__(self): return self

    def __format__(self, spec):
        if spec in ("", "d"):
            return make_token(("int", self.t))
        mm = re.match(r"^0(\d+)d?$", spec)
        if mm:
            # zero-padded to a minimum width: decide by case split whether the value fits the width (then the text has
            # exactly `width` digits); wider or negative values are rendered like a plain int
            w = int(mm.group(1))
            if CTL.branch(z3.And(self.t >= 0, self.t < 10 ** w)):
                return make_token(("intpad", self.t, w))
            return make_token(("int", self.t))
        raise Unsupported("format spec for symbolic int: " + spec)

    def __str__(self):
        return make_token(("int", self.t))

    def __repr__(self):
        return f"SymInt({self.t})"

    numerator = property(lambda self: self)
    denominator = property(lambda self: 1)


numbers.Integral.register(SymInt)


def wrap_int(t):
    if not is_term(t):
        return t
    t = z3.simplify(t)
    if z3.is_int_value(t):
        return t.as_long()
    return SymInt(t)


# ------------------------------------------------------------------ token strings
TOKENS = {}
_TOKEN_RE = re.compile("⟦N\\d+⟧")


def make_token(payload):
    s = "⟦N%d⟧" % len(TOKENS)
    TOKENS[s] = payload
    return s


def canon_text(s):
    """text with every token replaced by a canonical rendering of the value it denotes (tokens are unique per rendering)"""
    def rep(mo):
        p = TOKENS.get(mo.group(0))
        if p is None:
            return mo.group(0)
        return "<" + ":".join(str(z3.simplify(x)) if is_term(x) else str(x) for x in p[:3] if not isinstance(x, tuple)) + ">"
    return _TOKEN_RE.sub(rep, s)


def token_payload(s):
    if isinstance(s, str):
        return TOKENS.get(s.strip())
    return None


def has_token(s):
    return isinstance(s, str) and _TOKEN_RE.search(s) is not None


_NUMTXT = re.compile(r"^\s*([+-]?)(\d+|⟦N\d+⟧)(?:\.(\d*|⟦N\d+⟧))?\s*$")


def parse_numeric_text(s):
    """value (v, nd) of a decimal text whose integer and/or fraction digits are tokens: [sign] INT [. FRAC]
    INT: digits or an int token (its own text carries a '-' when negative); FRAC: digits or a zero-padded int token."""
    mo = _NUMTXT.match(s)
    if not mo:
        return None
    sign, ip, fp = mo.group(1), mo.group(2), mo.group(3)
    if ip in TOKENS:
        p = TOKENS[ip]
        if p[0] not in ("int", "intpad"):
            return None
        it = p[1]
    else:
        it = int(ip)
    if fp is None or fp == "":
        fr, w = 0, 0
    elif fp in TOKENS:
        p = TOKENS[fp]
        if p[0] == "intpad":
            fr, w = p[1], p[2]
        elif p[0] == "int":
            raise Unsupported("fraction digits rendered without a fixed width")
        else:
            return None
    else:
        fr, w = int(fp), len(fp)
    den = 10 ** w
    if not is_term(it) and not is_term(fr):
        neg = sign == "-" or (it < 0)
        mag = abs(it) * den + fr
        return _norm(RealFraction(-mag if neg else mag, den)), None
    itz, frz = z(it), z(fr)
    if sign == "-":
        num = -(itz * den + frz)      # explicit sign: the integer part is then non-negative text
    else:
        num = z3.If(itz < 0, itz * den - frz, itz * den + frz)
    num = z3.simplify(num)
    return z3.ToReal(num) / den if den != 1 else z3.ToReal(num), (num, den)


def payload_value(p):
    """-> (v, nd) exact value denoted by a token payload"""
    kind = p[0]
    if kind in ("int", "intpad"):
        return p[1], (p[1], 1)
    if kind == "dec":  # m / 10**places
        m, places = p[1], p[2]
        d = 10 ** places
        if is_term(m):
            return z3.ToReal(m) / d, (m, d)
        return _norm(RealFraction(m, d)), (m, d)
    if kind == "val":  # exact rendering of a value
        return p[1], p[2]
    raise Unsupported("token kind " + kind)


_FSPEC = re.compile(r"^\.(\d+)f$")


class _RatLike(_Num):
    """shared exact arithmetic; subclasses: FracShim, FloatShim, DecShim"""
    __slots__ = ()

    @classmethod
    def _make(cls, v, nd=None):
        raise NotImplementedError

    def _mk(self, v, nd=None):
        return type(self)._base()._make(v, nd)

    # binary arithmetic -------------------------------------------------
    def _bin(self, o, op, rev=False):
        b = _coerce_other(o)
        if b is NotImplemented:
            return NotImplemented
        a = self._v
        if FLOAT_FAITHFUL and not is_term(a) and not is_term(b) and (isinstance(self, FloatShim) or isinstance(o, (FloatShim, float))) \
                and not isinstance(self, DecShim) and not isinstance(o, DecShim):
            return self._ieee(o, op, rev)
        and_, bnd = self._nd if self._nd is not None else nd_of(self), nd_of(o)
        if rev:
            a, b = b, a
            and_, bnd = bnd, and_
        v = arith(op, a, b)
        nd = None
        if is_term(v) and and_ is not None and bnd is not None:
            (n1, d1), (n2, d2) = and_, bnd
            if op in "+-":
                d = d1 * d2 // _math.gcd(d1, d2)
                x, y = arith("*", n1, d // d1), arith("*", n2, d // d2)
                nd = (arith(op, x, y), d)
            elif op == "*":
                if not is_term(n1) or not is_term(n2):
                    nd = (arith("*", n1, n2), d1 * d2)
            elif op == "/":
                if not is_term(n2):
                    if n2 == 0:
                        raise ZeroDivisionError
                    sgn = 1 if n2 > 0 else -1
                    nd = (arith("*", n1, sgn * d2), d1 * abs(n2))
            if nd is not None:
                n, d = nd
                if not is_term(n):
                    nd = None
                else:
                    nd = nd_reduce(n, d)
        return self._result(v, nd, o)

    def _result(self, v, nd, other):
        return self._mk(v, nd)

    def _ieee(self, o, op, rev):
        """all-concrete float arithmetic in IEEE doubles (FLOAT_FAITHFUL)"""
        a, b = float(RealFraction(self._v)), float(RealFraction(term_of(o)))
        if rev:
            a, b = b, a
        r = a + b if op == "+" else a - b if op == "-" else a * b if op == "*" else a / b
        return FloatShim._make(_norm(RealFraction(r)))

    def __add__(self, o): return self._bin(o, "+")
    def __radd__(self, o): return self._bin(o, "+", True)
    def __sub__(self, o): return self._bin(o, "-")
    def __rsub__(self, o): return self._bin(o, "-", True)
    def __mul__(self, o): return self._bin(o, "*")
    def __rmul__(self, o): return self._bin(o, "*", True)
    def __truediv__(self, o): return self._bin(o, "/")
    def __rtruediv__(self, o): return self._bin(o, "/", True)

    def __neg__(self):
        nd = (z3.simplify(-self._nd[0]), self._nd[1]) if self._nd is not None else None
        return self._mk(arith("-", 0, self._v), nd)

    def __pos__(self):
        return self._mk(self._v, self._nd)

    def __abs__(self):
        v = self._v
        if is_term(v):
            nd = None
            if self._nd is not None:
                n, d = self._nd
                nd = (z3.If(n >= 0, n, -n), d)
            return self._mk(z3.If(v >= 0, v, -v), nd)
        return self._mk(abs(v))

    def __lt__(self, o): return self._cmp("<", o)
    def __le__(self, o): return self._cmp("<=", o)
    def __gt__(self, o): return self._cmp(">", o)
    def __ge__(self, o): return self._cmp(">=", o)

    def _cmp(self, op, o):
        b = _coerce_other(o)
        if b is NotImplemented:
            return NotImplemented
        a = self._v
        nd1, nd2 = self._nd, nd_of(o)
        if is_term(a) or is_term(b):
            if nd1 is not None and nd2 is not None:
                (n1, d1), (n2, d2) = nd1, nd2
                d = d1 * d2 // _math.gcd(d1, d2)
                return cmp(op, arith("*", n1, d // d1), arith("*", n2, d // d2))
        return cmp(op, a, b)

    def __eq__(self, o):
        if o is None or isinstance(o, (str, tuple, list)):
            return NotImplemented
        return self._cmp("==", o)

    def __ne__(self, o):
        if o is None or isinstance(o, (str, tuple, list)):
            return NotImplemented
        return self._cmp("!=", o)

    def __bool__(self):
        v = self._v
        if is_term(v):
            return CTL.branch(v != 0)
        return v != 0

    def __hash__(self):
        return _num_hash(self)

    def __round__(self, ndigits=None):
        if ndigits is not None:
            if not isinstance(ndigits, int):
                raise Unsupported("round(x, n) with symbolic n")
            if is_term(self._v):
                # round half even to n decimal places: m / 10^n with m = round(x * 10^n)
                scale = 10 ** ndigits if ndigits >= 0 else RealFraction(1, 10 ** (-ndigits))
                scaled = self * scale
                m = scaled.__round__()
                mt = m.t if isinstance(m, SymInt) else m
                r = self._mk(zr(mt) / zr(scale) if True else None, None)
                if ndigits >= 0:
                    r = type(self)._base()._make(z3.ToReal(z(mt)) / (10 ** ndigits), (z(mt), 10 ** ndigits)) if is_term(mt) else self._mk(_norm(RealFraction(mt, 10 ** ndigits)))
                return r
            return self._mk(_norm(round(RealFraction(self._v), ndigits)))
        if self._nd is not None:
            return wrap_int(nd_round(*self._nd))
        return wrap_int(round_half_even_term(self._v))

    def __floor__(self):
        if self._nd is not None:
            return wrap_int(nd_floor(*self._nd))
        return wrap_int(floor_term(self._v))

    def __ceil__(self):
        return -((-self).__floor__())

    def __trunc__(self):
        if self._nd is not None:
            return wrap_int(nd_trunc(*self._nd))
        return wrap_int(trunc_term(self._v))

    __int__ = __trunc__

    def _divmod(self, o):
        b = _coerce_other(o)
        if b is NotImplemented:
            return NotImplemented
        if not is_term(b) and b == 0:
            raise ZeroDivisionError
        quo = self._bin(o, "/")
        if quo is NotImplemented:
            return NotImplemented
        q = quo.__floor__()
        rem = self - _as_rat(o, type(self)) * q
        return q, rem

    def __floordiv__(self, o):
        r = self._divmod(o)
        return r if r is NotImplemented else r[0]

    def __mod__(self, o):
        r = self._divmod(o)
        return r if r is NotImplemented else r[1]

    def __divmod__(self, o):
        return self._divmod(o)

    def __rfloordiv__(self, o):
        return _as_rat(o, type(self)).__floordiv__(self)

    def __rmod__(self, o):
        return _as_rat(o, type(self)).__mod__(self)

    def __rdivmod__(self, o):
        return _as_rat(o, type(self)).__divmod__(self)

    def __pow__(self, o):
        if isinstance(o, int) and not isinstance(o, bool):
            if o >= 0:
                r = self._mk(1)
                for _ in range(o):
                    r = r * self
                return r
            return self._mk(1) / (self ** (-o))
        if not is_term(self._v) and not is_term(_coerce_other(o)):
            return self._mk(_norm(RealFraction(self._v) ** RealFraction(term_of(o))))
        raise Unsupported("pow with symbolic exponent")

    def __rpow__(self, o):
        if not is_term(self._v):
            f = RealFraction(self._v)
            if f.denominator == 1:
                return _as_rat(o, type(self)) ** int(f)
        raise Unsupported("rpow with symbolic exponent")

    def __float__(self):
        raise Unsupported("float() of a shim number escaped to C code")

    def _token(self, kind_payload):
        return make_token(kind_payload)

    def __format__(self, spec):
        if spec == "":
            return str(self)  # like Fraction/Decimal/float: empty spec is str(); subclasses' __str__ is honoured
        if not is_term(self._v):
            return self._concrete_format(spec)
        mm = _FSPEC.match(spec)
        if mm:
            p = int(mm.group(1))
            if self._nd is not None:
                n, d = self._nd
                g = _math.gcd(10 ** p, d)
                m = nd_round(z3.simplify(n * (10 ** p // g)), d // g)
            else:
                m = round_half_even_term(self._v * (10 ** p))
            return make_token(("dec", m, p))
        raise Unsupported("format spec " + spec)

    def __str__(self):
        if not is_term(self._v):
            return self._concrete_format("")
        return make_token(("val", self._v, self._nd))

    def _concrete_format(self, spec):
        return format(RealFraction(self._v), spec) if spec else str(RealFraction(self._v))


def _as_rat(o, cls=None):
    if isinstance(o, _RatLike):
        return o
    return (cls or FracShim)._base()._make(term_of(o), nd_of(o) if is_term(term_of(o)) else None)


class FracShim(_RatLike):
    """Stand-in for fractions.Fraction."""
    __slots__ = ("_v", "_nd")

    @classmethod
    def _base(cls):
        return FracShim

    @classmethod
    def _make(cls, v, nd=None):
        r = object.__new__(FracShim)
        r._v = v if is_term(v) else _norm(RealFraction(v))
        r._nd = nd if is_term(v) else None
        return r

    def __new__(cls, numerator=0, denominator=None):
        self = object.__new__(cls)
        nd = None
        if denominator is None:
            if isinstance(numerator, str):
                p = token_payload(numerator)
                if p is not None:
                    v, nd = payload_value(p)
                elif has_token(numerator):
                    r = parse_numeric_text(numerator)
                    if r is None:
                        raise Unsupported("token embedded in a longer numeric string: %r" % numerator)
                    v, nd = r
                else:
                    v = _norm(RealFraction(numerator))
            else:
                v = term_of(numerator)
                nd = nd_of(numerator)
        else:
            a, b = _as_rat(numerator), _as_rat(denominator)
            if not is_term(b._v) and b._v == 0:
                raise ZeroDivisionError("Fraction(%s, 0)" % numerator)
            r = a / b
            v, nd = r._v, r._nd
        self._v = v if is_term(v) else _norm(RealFraction(v))
        self._nd = nd if is_term(v) else None
        return self

    def _result(self, v, nd, other):
        # Fraction op float -> float (as in CPython)
        if isinstance(other, (FloatShim, float)):
            return FloatShim._make(v, nd)
        return FracShim._make(v, nd)

    @property
    def numerator(self):
        if not is_term(self._v):
            return RealFraction(self._v).numerator
        if self._nd is None:
            raise Unsupported("numerator of real-form symbolic fraction")
        n, d = self._nd
        red = self._reduced_den()
        return wrap_int(z3.simplify(n / (d // red))) if red != d else wrap_int(n)

    def _reduced_den(self):
        n, d = self._nd
        # reduced denominator: case split over the divisors of d (gcd(n, d) = g)
        divs = [g for g in range(1, d + 1) if d % g == 0]
        for g in sorted(divs, reverse=True):
            cond = z3.And(n % g == 0, *[n % h != 0 for h in divs if h > g and h % g == 0])
            if CTL.branch(cond):
                return d // g
        raise Unsupported("no divisor")

    @property
    def denominator(self):
        if not is_term(self._v):
            return RealFraction(self._v).denominator
        if self._nd is None:
            raise Unsupported("denominator of real-form symbolic fraction")
        return self._reduced_den()

    def __repr__(self):
        if not is_term(self._v):
            f = RealFraction(self._v)
            return "%s(%s, %s)" % (type(self).__name__, f.numerator, f.denominator)   # like fractions.Fraction
        return f"{type(self).__name__}({self._v})"

    def limit_denominator(self, *a):
        raise Unsupported("limit_denominator")


def _num_hash(x):
    """hash() of a stand-in number.  Concrete values hash like the real types.  A symbolic value gets a hash that is consistent
    with ==: it is compared (solver branches) with every stand-in number hashed earlier on this path and takes that number's
    hash when equal, otherwise a fresh token.  So dict/set operations keyed by symbolic numbers are decided by the solver.
    Limit: python ints used as keys next to symbolic stand-ins are not seen here (stated in the evidence as an assumption)."""
    reg = CTL.hashed
    symbolic = is_term(x._v)
    if not symbolic and not CTL.hashed_sym:
        h = hash(RealFraction(x._v))
        if len(reg) < 48:
            reg.append((x, h))
        else:
            CTL.hashed_sym = None     # too many concrete keys to compare a later symbolic one against
        return h
    if CTL.hashed_sym is None:
        if symbolic:
            raise Unsupported("hash of a symbolic number after more than 48 hashed numbers")
        return hash(RealFraction(x._v))
    for (y, tok) in reg:
        if not symbolic and not is_term(y._v):
            if x._v == y._v:
                return tok
            continue
        if bool(x._cmp("==", y)):
            return tok
    tok = hash(RealFraction(x._v)) if not symbolic else -(1 << 40) - len(reg)
    reg.append((x, tok))
    CTL.hashed_sym = True
    return tok


numbers.Rational.register(FracShim)


class FloatShim(_RatLike):
    """Stand-in for builtin float: real-number semantics (no rounding). DESIGN 2.3."""
    __slots__ = ("_v", "_nd")

    @classmethod
    def _base(cls):
        return FloatShim

    @classmethod
    def _make(cls, v, nd=None):
        r = object.__new__(FloatShim)
        r._v = v if is_term(v) else _norm(RealFraction(v))
        r._nd = nd if is_term(v) else None
        return r

    def __new__(cls, x=0.0):
        self = object.__new__(cls)
        nd = None
        if isinstance(x, str):
            p = token_payload(x)
            if p is not None:
                v, nd = payload_value(p)
            elif has_token(x):
                r = parse_numeric_text(x)
                if r is None:
                    raise Unsupported("token embedded in a longer numeric string: %r" % x)
                v, nd = r
            else:
                v = _norm(RealFraction(float(x)))  # parsing text yields the nearest double, exactly as CPython's float(str)
        else:
            v = term_of(x)
            nd = nd_of(x)
            if FLOAT_FAITHFUL and not isinstance(x, (FloatShim, float)):
                if is_term(v) and nd is not None and (nd[1] & (nd[1] - 1)) != 0:
                    n = concretize(nd[0])           # pin the numerator: the conversion to a double is then exact IEEE
                    v, nd = _norm(RealFraction(n, nd[1])), None
                if not is_term(v):
                    v = _norm(RealFraction(float(RealFraction(v))))
        self._v = v if is_term(v) else _norm(RealFraction(v))
        self._nd = nd if is_term(v) else None
        return self

    def _concrete_format(self, spec):
        return format(float(RealFraction(self._v)), spec) if spec else repr(float(RealFraction(self._v)))

    def __repr__(self):
        if type(self) is FloatShim:
            return f"FloatShim({self._v})"
        return f"{type(self).__name__}({self._v})"

    def is_integer(self):
        return bool(SymBool(zr(self._v) == z3.ToReal(z3.ToInt(zr(self._v))))) if is_term(self._v) else RealFraction(self._v).denominator == 1


class DecShim(_RatLike):
    """Stand-in for decimal.Decimal: exact rational."""
    __slots__ = ("_v", "_nd", "_text")

    @classmethod
    def _base(cls):
        return DecShim

    @classmethod
    def _make(cls, v, nd=None):
        r = object.__new__(DecShim)
        r._v = v if is_term(v) else _norm(RealFraction(v))
        r._nd = nd if is_term(v) else None
        r._text = None
        return r

    def __new__(cls, x=0, context=None):
        self = object.__new__(cls)
        nd = None
        self._text = None
        if isinstance(x, str):
            p = token_payload(x)
            if p is not None:
                v, nd = payload_value(p)
            elif has_token(x):
                r = parse_numeric_text(x)
                if r is None:
                    raise Unsupported("token embedded in a longer numeric string: %r" % x)
                v, nd = r
            else:
                d = RealDecimal(x)  # raises InvalidOperation like the real one
                if not d.is_finite():
                    raise Unsupported("non-finite Decimal")
                v = _norm(RealFraction(d))
                self._text = str(d)
        elif isinstance(x, DecShim):
            v, nd, self._text = x._v, x._nd, x._text
        elif isinstance(x, (FloatShim, float, int, SymInt)) or is_term(x):
            v = term_of(x)
            nd = nd_of(x)
        elif isinstance(x, RealDecimal):
            v = _norm(RealFraction(x))
            self._text = str(x)
        else:
            raise TypeError("conversion from %s to Decimal is not supported" % type(x).__name__)
        self._v = v if is_term(v) else _norm(RealFraction(v))
        self._nd = nd if is_term(v) else None
        return self

    def _bin(self, o, op, rev=False):
        if isinstance(o, (float, FloatShim, RealFraction, FracShim)):
            return NotImplemented  # Decimal does not mix with float/Fraction arithmetic
        return super()._bin(o, op, rev)

    def _concrete_format(self, spec):
        d = RealDecimal(self._text) if self._text is not None else _frac_to_decimal(RealFraction(self._v))
        return format(d, spec) if spec else str(d)

    def __repr__(self):
        if not is_term(self._v):
            return "Decimal('%s')" % self._concrete_format("")
        return f"DecShim({self._v})"


def _frac_to_decimal(f):
    d = RealDecimal(f.numerator) / RealDecimal(f.denominator)
    if RealFraction(d) != f:
        raise Unsupported("non-terminating decimal")
    return d


# ------------------------------------------------------------------ shim builtins
def shim_int(x=0, *a):
    if isinstance(x, SymInt):
        return x
    if isinstance(x, _RatLike):
        return x.__trunc__()
    if isinstance(x, str) and not a:
        p = token_payload(x)
        if p is not None:
            if p[0] != "int":
                raise ValueError("invalid literal for int(): token of kind " + p[0])
            return wrap_int(p[1])
        if has_token(x):
            raise Unsupported("token embedded in a longer int string: %r" % x)
    return int(x, *a)


def shim_isinstance(obj, cls):
    # inside the shim-loaded modules `int` names the function shim_int and `float` the class FloatShim: translate both, also
    # inside tuples, so that `isinstance(x, (int, Fraction))` written in the code under test means what it means natively
    clss = cls if isinstance(cls, tuple) else (cls,)
    out = []
    for c in clss:
        if isinstance(c, tuple):
            if shim_isinstance(obj, c):
                return True
        elif c is shim_int or c is int:
            out += [int, SymInt]
        elif c is FloatShim or c is float:
            out += [float, FloatShim]
        else:
            out.append(c)
    return isinstance(obj, tuple(out))


def shim_range(*args):
    return range(*[concretize(a) if isinstance(a, SymInt) else a for a in args])


def shim_float_factory():
    return FloatShim


frac_mod = types.ModuleType("fractions")
frac_mod.Fraction = FracShim
frac_mod.__file__ = "<symx fractions shim>"
dec_mod = types.ModuleType("decimal")
dec_mod.Decimal = DecShim
dec_mod.InvalidOperation = _rd.InvalidOperation
dec_mod.__file__ = "<symx decimal shim>"

math_mod = types.ModuleType("math")
for _n in dir(_math):
    if not _n.startswith("__"):
        setattr(math_mod, _n, getattr(_math, _n))
math_mod.__file__ = "<symx math shim>"


def _shim_isclose(a, b, *, rel_tol=1e-09, abs_tol=0.0):
    """math.isclose on stand-in numbers, with CPython's definition: |a-b| <= |rel_tol*b| or |a-b| <= |rel_tol*a| or <= abs_tol"""
    if not any(isinstance(x, (_RatLike, SymInt)) for x in (a, b)):
        return _math.isclose(a, b, rel_tol=rel_tol, abs_tol=abs_tol)
    fa, fb = FloatShim(a), FloatShim(b)
    if fa == fb:
        return True
    diff = abs(fa - fb)
    return bool(diff <= abs(FloatShim(rel_tol) * fb)) or bool(diff <= abs(FloatShim(rel_tol) * fa)) or bool(diff <= FloatShim(abs_tol))


math_mod.isclose = _shim_isclose

_real_import = builtins.__import__


def shim_import(name, globals=None, locals=None, fromlist=(), level=0):
    if level == 0:
        if name == "fractions":
            return frac_mod
        if name == "decimal":
            return dec_mod
        if name == "math":
            return math_mod
    return _real_import(name, globals, locals, fromlist, level)


SHIM_BUILTINS = dict(vars(builtins))
SHIM_BUILTINS["float"] = FloatShim
SHIM_BUILTINS["int"] = shim_int
SHIM_BUILTINS["isinstance"] = shim_isinstance
SHIM_BUILTINS["range"] = shim_range
SHIM_BUILTINS["__import__"] = shim_import


class ShimLoader(importlib.machinery.SourceFileLoader):
    def exec_module(self, module):
        module.__dict__["__builtins__"] = SHIM_BUILTINS
        super().exec_module(module)

    def get_code(self, fullname):
        # never use cached byte code: compile the current source text
        src = self.get_source(fullname)
        return compile(src, self.get_filename(fullname), "exec", dont_inherit=True)


class ShimFinder(importlib.abc.MetaPathFinder):
    def __init__(self, root, prefixes):
        self.root, self.prefixes = root, prefixes
        self.loaded = []

    def find_spec(self, name, path, target=None):
        if not any(name == p or name.startswith(p + ".") for p in self.prefixes):
            return None
        rel = name.replace(".", "/")
        for cand, pkg in ((f"{self.root}/{rel}/__init__.py", True), (f"{self.root}/{rel}.py", False)):
            if os.path.exists(cand):
                self.loaded.append(cand)
                return importlib.util.spec_from_file_location(
                    name, cand, loader=ShimLoader(name, cand),
                    submodule_search_locations=[os.path.dirname(cand)] if pkg else None)
        return None


REPO = os.environ.get("VERIF_REPO", "/repo")
_LOADED = {}


def load_shimmed(mods, root=None):
    """Load fresh copies of the given simfile modules, compiled from `root`, with the
    shim builtins.  The normally imported `simfile` (real types) is left in sys.modules."""
    root = root or REPO
    key = (root, tuple(mods))
    if key in _LOADED:
        return _LOADED[key]
    if root not in sys.path:
        sys.path.insert(0, root)
    import warnings
    with warnings.catch_warnings():
        warnings.simplefilter("ignore")
        import simfile, simfile.timing.engine, simfile.notes.timed, simfile.notes.group, simfile.notes.count  # noqa: real import first
    saved = {k: v for k, v in sys.modules.items() if k == "simfile" or k.startswith("simfile.")}
    for k in saved:
        del sys.modules[k]
    finder = ShimFinder(root, ["simfile"])
    sys.meta_path.insert(0, finder)
    try:
        out = {m: importlib.import_module(m) for m in mods}
    finally:
        sys.meta_path.remove(finder)
        shim_mods_snapshot = {k: v for k, v in sys.modules.items() if k == "simfile" or k.startswith("simfile.")}
        for k in list(shim_mods_snapshot):
            del sys.modules[k]
        sys.modules.update(saved)
    out["__files__"] = list(finder.loaded)
    # snapshot of module-level mutable containers: restored in place before every path, so that each path starts from the
    # state of a freshly imported library (re-execution must not inherit what an earlier path did to module globals)
    import copy
    for mname, mod in shim_mods_snapshot.items():
        for name, obj in list(vars(mod).items()):
            if isinstance(obj, (dict, list, set)) and not name.startswith("__"):
                try:
                    _GLOBAL_SNAPSHOT.append((obj, copy.copy(obj)))
                except Exception:
                    pass
    _LOADED[key] = out
    return out


_GLOBAL_SNAPSHOT = []


def reset_module_state():
    for obj, saved in _GLOBAL_SNAPSHOT:
        try:
            if isinstance(obj, dict):
                if dict.__ne__(obj, saved) if False else (list(dict.items(obj)) != list(dict.items(saved))):
                    dict.clear(obj); dict.update(obj, saved)
            elif isinstance(obj, list):
                if list(obj) != list(saved):
                    obj[:] = saved
            elif isinstance(obj, set):
                if obj != saved:
                    obj.clear(); obj.update(saved)
        except Exception:
            pass


# ------------------------------------------------------------------ exploration
def model_value(m, t):
    v = m.eval(t, model_completion=True)
    if z3.is_int_value(v):
        return v.as_long()
    if z3.is_rational_value(v):
        return RealFraction(v.numerator_as_long(), v.denominator_as_long())
    if z3.is_algebraic_value(v):
        a = v.approx(20)
        return RealFraction(a.numerator_as_long(), a.denominator_as_long())
    if z3.is_true(v):
        return True
    if z3.is_false(v):
        return False
    raise Unsupported("model value " + str(v))


class Result:
    def __init__(self):
        self.status = None  # discharged | violated | inconclusive
        self.paths = 0
        self.checks = 0
        self.branches = 0
        self.solver_s = 0.0
        self.wall_s = 0.0
        self.reason = ""
        self.model = None  # dict name -> value (python exact numbers) for a violation
        self.info = None
        self.twin_sat = None  # reachability witness: was the final assertion reached on a feasible path
        self.witness = None   # a concrete input (model of one explored path condition) on which the assertion holds

    def as_dict(self):
        d = dict(self.__dict__)
        if d["model"] is not None:
            d["model"] = {k: str(v) for k, v in d["model"].items()}
        if d.get("witness") is not None:
            d["witness"] = {k: str(v) for k, v in d["witness"].items()}
        d["info"] = repr(d["info"]) if d["info"] is not None else None
        return d


def explore(fn, max_paths=200000, budget_s=600.0, variables=None):
    """fn() declares its symbolic inputs through CTL.assume/fresh terms, runs the real code
    and returns (ok, info) where ok is a z3 Bool / SymBool / python bool.
    Every feasible path is explored (DFS by re-execution); on each, pc ∧ ¬ok is checked.
    """
    global CTL
    CTL = Ctl()
    res = Result()
    t0 = time.time()
    CTL.deadline = t0 + budget_s
    inconclusive = []
    reached = 0
    while True:
        CTL.reset_run()
        TOKENS.clear()
        reset_module_state()
        status = "ok"
        try:
            ok, info = fn()
        except Budget as e:
            inconclusive.append("budget: " + str(e))
            res.paths += 1
            break
        except Exhausted:
            # the deepest choice point has no value left: drop it and continue the DFS (not a path)
            CTL.trail.pop()
            if not CTL.backtrack():
                break
            continue
        except Prune:
            ok, info, status = None, None, "pruned"
        except Unsupported as e:
            ok, info, status = None, None, "unsupported"
            inconclusive.append("unsupported: " + str(e))
        except (KeyboardInterrupt, SystemExit, MemoryError):
            raise
        except Exception as e:
            # an exception escaping the code under execution on a feasible path: a candidate violation (the replay on the
            # real code decides whether the repository really raises there or a stand-in is at fault)
            import traceback
            ok, info = False, ("exception", type(e).__name__, str(e)[:200], traceback.format_exc()[-600:])
        res.paths += 1
        if status == "ok":
            reached += 1
            if isinstance(ok, SymBool):
                ok = ok.e
            try:
                if is_term(ok):
                    r = CTL.check(z3.Not(ok))
                    if r == z3.sat:
                        m = CTL.solver.model()
                        res.status = "violated"
                        res.model = {str(d): model_value(m, d()) for d in m.decls() if d.arity() == 0}
                        res.info = info
                        break
                    elif r == z3.unknown:
                        inconclusive.append("solver unknown on final assertion")
                    elif res.witness is None and res.paths <= 64:
                        # the assertion holds on this whole path: keep one concrete input of it, to be re-run on the real code
                        try:
                            if CTL.check() == z3.sat:
                                m = CTL.solver.model()
                                res.witness = {str(d): model_value(m, d()) for d in m.decls() if d.arity() == 0}
                        except Exception:
                            pass
                elif not ok:
                    r = CTL.check()
                    if r == z3.sat:
                        m = CTL.solver.model()
                        res.status = "violated"
                        res.model = {str(d): model_value(m, d()) for d in m.decls() if d.arity() == 0}
                        res.info = info
                        break
                    inconclusive.append("assertion false on a path whose feasibility is " + str(r))
            except Budget as e:
                inconclusive.append("budget: " + str(e))
                break
        try:
            more = CTL.backtrack()
        except Budget as e:
            inconclusive.append("budget: " + str(e))
            break
        if not more:
            break
        if res.paths >= max_paths:
            inconclusive.append(f"path budget {max_paths} exhausted")
            break
        if time.time() - t0 > budget_s:
            inconclusive.append(f"wall budget {budget_s}s exhausted")
            break
    res.checks, res.solver_s, res.branches = CTL.checks, round(CTL.solver_s, 3), CTL.branches
    res.wall_s = round(time.time() - t0, 3)
    res.twin_sat = reached > 0
    if res.status is None:
        if inconclusive:
            res.status = "inconclusive"
            res.reason = "; ".join(sorted(set(inconclusive))[:5])
        elif reached == 0:
            res.status = "inconclusive"
            res.reason = "assertion never reached (vacuous harness)"
        else:
            res.status = "discharged"
    return res


# ------------------------------------------------------------------ harness conveniences
def fresh_int(name, lo=None, hi=None):
    v = z3.Int(name)
    if lo is not None:
        CTL.assume(v >= lo)
    if hi is not None:
        CTL.assume(v <= hi)
    return v


def fresh_real(name, lo=None, hi=None, lo_strict=False):
    v = z3.Real(name)
    if lo is not None:
        CTL.assume(v > lo if lo_strict else v >= lo)
    if hi is not None:
        CTL.assume(v <= hi)
    return v


def choose(name, n):
    """solver-guided case split of an Int in 0..n-1 (every value is explored)"""
    v = z3.Int(name)
    CTL.assume(v >= 0, v < n)
    for i in range(n - 1):
        if CTL.branch(v == i):
            return i
    CTL.assume(v == n - 1)
    return n - 1


def tick_index(x, sub=48):
    """(aligned, k): is the number x a multiple of 1/sub, and the Int term k = sub*x if so.  Structural when x carries an
    integer form whose denominator divides sub; otherwise decided by the solver (case split)."""
    nd = nd_of(x)
    if nd is not None and sub % nd[1] == 0:
        n, d = nd
        return True, n * (sub // d)
    r = zr(term_of(x)) * sub
    k = floor_term(r)
    return CTL.branch(z3.ToReal(k) == r), k


def feasible():
    return CTL.check() == z3.sat


def require_feasible():
    r = CTL.check()
    if r == z3.unsat:
        raise Prune()
    if r != z3.sat:
        raise SolverUnknown("solver unknown on precondition")
