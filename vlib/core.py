"""Shared driver: obligations -> parallel workers -> verdicts -> replay -> evidence/exit code."""
import concurrent.futures as cf
import importlib, json, multiprocessing, os, subprocess, sys, time, traceback, hashlib

VERIF = os.path.dirname(os.path.dirname(os.path.abspath(__file__)))
REPO = os.environ.get("VERIF_REPO", "/repo")
PY = os.path.join(VERIF, ".venv", "bin", "python")
EXIT_OK, EXIT_VIOLATION, EXIT_HARNESS = 0, 1, 3


def jsonable(x):
    from fractions import Fraction
    if isinstance(x, dict):
        return {str(k): jsonable(v) for k, v in x.items()}
    if isinstance(x, (list, tuple, set, frozenset)):
        return [jsonable(v) for v in x]
    if isinstance(x, (str, int, float, bool)) or x is None:
        return x
    if isinstance(x, Fraction):
        return str(x)
    return repr(x)


def _worker(modname, func, args, budget_s):
    """Runs in a fresh process: one obligation."""
    import warnings
    warnings.filterwarnings("ignore")
    sys.path.insert(0, VERIF)
    if os.environ.get("VERIF_REPO"):
        sys.path.insert(0, os.environ["VERIF_REPO"])
    t0 = time.time()
    try:
        mod = importlib.import_module(modname)
        res = getattr(mod, func)(*args, budget_s=budget_s)
        if hasattr(res, "as_dict"):
            res = res.as_dict()
        res.setdefault("wall_s", round(time.time() - t0, 3))
        return res
    except BaseException as e:  # worker boundary: report, never crash the pool
        return {"status": "inconclusive", "reason": "harness exception: %s: %s" % (type(e).__name__, e),
                "trace": traceback.format_exc()[-1500:], "paths": 0, "checks": 0, "branches": 0,
                "solver_s": 0.0, "wall_s": round(time.time() - t0, 3), "harness_error": True}


def run_obligations(modname, obs, workers=None):
    """obs: list of dict(name, func, args, budget_s, ...). Returns list of (ob, result)."""
    workers = workers or min(16, os.cpu_count() or 4)
    ctx = multiprocessing.get_context("spawn")
    out = [None] * len(obs)
    with cf.ProcessPoolExecutor(max_workers=workers, mp_context=ctx) as ex:
        futs = {}
        for i, ob in enumerate(obs):
            futs[ex.submit(_worker, modname, ob["func"], tuple(ob.get("args", ())), ob.get("budget_s", 120))] = i
        for f in cf.as_completed(futs):
            i = futs[f]
            try:
                out[i] = f.result()
            except Exception as e:
                out[i] = {"status": "inconclusive", "reason": "worker died: %r" % (e,), "paths": 0, "checks": 0,
                          "branches": 0, "solver_s": 0.0, "wall_s": 0.0, "harness_error": True}
    return list(zip(obs, out))


def load_known():
    p = os.path.join(VERIF, "known_findings.json")
    if not os.path.exists(p):
        return {"findings": [], "fixed": []}
    return json.load(open(p))


def source_digest(files):
    h = hashlib.sha256()
    for f in sorted(set(files)):
        try:
            h.update(open(f, "rb").read())
        except OSError:
            pass
    return h.hexdigest()[:16]


class Check:
    """One property check run."""

    def __init__(self, prop, tier, modname, functions_encoded, bounds, assumptions, outside, level="model_checking"):
        self.prop, self.tier, self.modname = prop, tier, modname
        self.functions_encoded, self.bounds = functions_encoded, bounds
        self.assumptions, self.outside, self.level = assumptions, outside, level
        self.t0 = time.time()
        self.seed = int(os.environ.get("VERIF_SEED", "0") or 0)
        self.results = []  # (ob, res)
        self.violations = []  # dicts
        self.known_hits = []
        self.replays = 0
        self.witness_replays = 0
        self.notes = []

    def add_results(self, pairs):
        self.results.extend(pairs)

    def replay(self, ob, res):
        """Write the replay file and re-run it against the real code in a fresh interpreter."""
        d = os.path.join(VERIF, "replays", self.prop)
        os.makedirs(d, exist_ok=True)
        path = os.path.join(d, "%s.json" % ob["name"].replace("/", "_").replace(" ", "_")[:120])
        json.dump({"property": self.prop, "module": self.modname, "obligation": ob["name"], "func": ob["func"],
                   "args": jsonable(ob.get("args", ())), "model": res.get("model"), "info": res.get("info"),
                   "cex": res.get("cex")}, open(path, "w"), indent=1)
        self.replays += 1
        p = subprocess.run([PY, "-W", "ignore", os.path.join(VERIF, "run.py"), self.prop, "--replay", path],
                           capture_output=True, text=True, timeout=600)
        return path, p.returncode, (p.stdout + p.stderr)[-3000:]

    def finish(self, signature_fn=None):
        known = load_known()
        n_ob = len(self.results)
        n_dis = sum(1 for _, r in self.results if r["status"] == "discharged")
        inconc = [(o, r) for o, r in self.results if r["status"] == "inconclusive"]
        viol = [(o, r) for o, r in self.results if r["status"] == "violated"]
        harness_errors = [(o, r) for o, r in self.results if r.get("harness_error")]
        printed = []
        seen_sig = set()
        for ob, res in viol:
            sig = signature_fn(ob, res) if signature_fn else ob["name"]
            path, rc, out = self.replay(ob, res)
            res["replay_path"], res["replay_rc"] = path, rc
            res["signature"] = sig
            if rc != 1:
                # does not reproduce on the real code: the encoding or a shim is wrong -> inconclusive, never a VIOLATION
                res["status"] = "inconclusive"
                res["reason"] = "counterexample did not replay on the real code (rc=%s): %s" % (rc, out[-400:])
                inconc.append((ob, res))
                continue
            kf = [k for k in known.get("findings", []) if k["property"] == self.prop and k["signature"] == sig]
            if kf:
                if sig not in seen_sig:
                    print("KNOWN-FINDING: property=%s %s [%s]" % (self.prop, kf[0]["what"], sig))
                    self.known_hits.append(sig)
                seen_sig.add(sig)
                res["known_finding"] = True
                continue
            self.violations.append({"obligation": ob["name"], "signature": sig, "replay": path, "model": res.get("model"),
                                    "info": res.get("info"), "cex": res.get("cex"), "replay_output": out[-1500:]})
            if sig not in seen_sig:
                printed.append("VIOLATION property=%s replay=%s" % (self.prop, path))
                print("  obligation=%s signature=%s" % (ob["name"], sig))
                print("  " + out.strip().replace("\n", "\n  ")[-1200:])
            seen_sig.add(sig)
        # witness replays: for a few discharged obligations, one concrete input of an explored path (on which the solver says
        # the assertion holds) is re-run on the real, unshimmed code; it must not show a violation there.  A disagreement
        # means a stand-in or an oracle misrepresents the code: that obligation is downgraded to inconclusive.
        wit = [(o, r) for o, r in self.results if r["status"] == "discharged" and r.get("witness")]
        step = max(1, len(wit) // 6)
        for ob, res in wit[::step][:6]:
            path, rc, out = self.replay(ob, dict(res, model=res["witness"], info="witness of a discharged obligation"))
            self.witness_replays += 1
            if rc == 1:
                print("  WITNESS-DIVERGENCE in %s: the symbolic run discharged a path on which the real code violates: %s" % (ob["name"], out.strip()[-300:]))
                res["status"] = "inconclusive"
                res["reason"] = "witness replay disagrees with the symbolic run: " + out.strip()[-300:]
                inconc.append((ob, res))
                n_dis -= 1
            try:
                os.remove(path)
            except OSError:
                pass
        for line in printed:
            print(line)
        wall = round(time.time() - self.t0, 2)
        paths = sum(r.get("paths", 0) for _, r in self.results)
        branches = sum(r.get("branches", 0) for _, r in self.results)
        queries = sum(r.get("checks", 0) for _, r in self.results)
        solver_s = round(sum(r.get("solver_s", 0.0) for _, r in self.results), 2)
        samples = []
        for ob, res in self.results[:: max(1, n_ob // 8)][:10]:
            samples.append({"obligation": ob["name"], "bounds": ob.get("bounds", ""), "verdict": res["status"],
                            "paths": res.get("paths", 0), "solver_queries": res.get("checks", 0),
                            "wall_s": res.get("wall_s", 0)})
        ev = {
            "property_id": self.prop, "tier": self.tier, "seed": self.seed, "level": self.level,
            "coverage": {
                "states": max(paths, 0), "transitions": max(branches, queries, 0),
                "traces_validated_against_impl": self.replays,
                "samples": samples or [{"note": "no obligations"}],
                "obligations": n_ob, "discharged": n_dis,
                "inconclusive": len(inconc),
                "violated_known": len(self.known_hits), "violated_new": len(self.violations),
                "inconclusive_detail": [{"obligation": o["name"], "reason": r.get("reason", "")[:300]} for o, r in inconc][:40],
                "solver_queries": queries, "solver_s": solver_s,
                "functions_encoded": self.functions_encoded, "bounds": self.bounds, "outside_claim": self.outside,
                "per_obligation": [{"name": o["name"], "verdict": r["status"], "paths": r.get("paths", 0),
                                    "queries": r.get("checks", 0), "solver_s": r.get("solver_s", 0), "wall_s": r.get("wall_s", 0),
                                    "bounds": o.get("bounds", "")} for o, r in self.results],
                "explanation": "states = feasible paths explored by symbolic execution of the real code; transitions = solver-decided "
                               "branch points / queries; a discharged obligation means pc AND NOT(assertion) was unsat on every path "
                               "inside the stated bound. " + " ".join(self.notes),
                "exhaustive": False,
                "repo_source_digest": source_digest(self.functions_encoded_files()),
            },
            "assumptions": self.assumptions, "wall_s": wall, "violations": len(self.violations),
        }
        # runs against a scratch copy of the repository (VERIF_REPO, mutation trials) never touch the real evidence files
        evdir = os.path.join(VERIF, "evidence") if not os.environ.get("VERIF_REPO") else os.path.join(VERIF, ".scratch", "evidence")
        os.makedirs(evdir, exist_ok=True)
        json.dump(jsonable(ev), open(os.path.join(evdir, self.prop + ".json"), "w"), indent=1)
        print("%s tier=%s obligations=%d discharged=%d inconclusive=%d known=%d violations=%d paths=%d queries=%d solver_s=%.1f wall=%.1fs"
              % (self.prop, self.tier, n_ob, n_dis, len(inconc), len(self.known_hits), len(self.violations), paths, queries, solver_s, wall))
        for o, r in inconc[:12]:
            print("  inconclusive: %s: %s" % (o["name"], r.get("reason", "")[:200]))
        if self.violations:
            return EXIT_VIOLATION
        if harness_errors:
            # an exception escaping the code under execution: reported, counted as inconclusive; fatal only if the whole
            # check is affected (then nothing it says can be trusted)
            for o, r in harness_errors[:5]:
                print("  EXCEPTION in %s: %s\n%s" % (o["name"], r.get("reason"), r.get("trace", "")[-600:]))
            if len(harness_errors) * 2 > max(1, n_ob) or any(r.get("fatal") for _, r in harness_errors):
                return EXIT_HARNESS
        if n_dis == 0 and not self.known_hits:
            print("  nothing discharged: the check is blind")
            return EXIT_HARNESS
        return EXIT_OK

    def functions_encoded_files(self):
        files = []
        for root, _, fs in os.walk(os.path.join(REPO, "simfile")):
            if "tests" in root:
                continue
            files += [os.path.join(root, f) for f in fs if f.endswith(".py")]
        return files
