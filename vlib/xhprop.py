"""glue: run the CrossHair obligations of one property and finish through core.Check"""
import os
from vlib import core, xh


def main(prop, tier, file, obs, functions, assumptions, outside, signature, bounds, extra_results=None, extra_chars=0):
    if extra_chars:
        os.environ["XH_EXTRA"] = str(extra_chars)   # read by harness/xhlib.py in every CrossHair process and in replays
        bounds += " [thorough: every string bound raised by %d character(s)]" % extra_chars
    chk = core.Check(prop, tier, "harness." + prop, functions, bounds, assumptions, outside)
    byfile = {}
    for ob in obs:
        byfile.setdefault(ob.get("file", file), []).append(ob)
    pairs = []
    for f, lst in byfile.items():
        pairs += xh.run(os.path.join(xh.HARNESS_DIR, f), lst, timeout=60 if tier == "quick" else 400)
    order = {id(o): i for i, o in enumerate(obs)}
    pairs.sort(key=lambda p: order[id(p[0])])
    # the engine self-test must be confirmed, otherwise nothing this run says is trusted
    for ob, res in pairs:
        if ob["func"].startswith("selftest") and res["status"] != "discharged":
            print("HARNESS ERROR: engine self-test %s not confirmed: %s" % (ob["func"], res.get("reason") or res.get("info")))
            res["harness_error"] = True
            res["fatal"] = True
            res["status"] = "inconclusive"
    chk.notes.append("xh: one `crosshair check --report_all` process per obligation; states/transitions count obligations (CrossHair does not report path counts).")
    chk.add_results(pairs)
    if extra_results:
        chk.add_results(extra_results)
    return chk.finish(signature)
