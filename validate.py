#!/usr/bin/env python3
"""Validate MANIFEST.json and evidence/*.json against the schemas (uses the tooling venv's jsonschema)."""
import json, sys, glob
import jsonschema
ok = True
try:
    jsonschema.validate(json.load(open('/verif/MANIFEST.json')), json.load(open('/root/.vp/MANIFEST.schema.json')))
    print('MANIFEST ok')
except Exception as e:
    ok = False; print('MANIFEST INVALID', str(e)[:500])
sch = json.load(open('/root/.vp/EVIDENCE.schema.json'))
for f in sorted(glob.glob('/verif/evidence/*.json')):
    try:
        jsonschema.validate(json.load(open(f)), sch); print(f, 'ok')
    except Exception as e:
        ok = False; print(f, 'INVALID', str(e)[:300])
sys.exit(0 if ok else 1)
