#!/bin/sh
# usage: seed_verify.sh <seed-id> <prop> <patch> <demo> [tier]
# confirms a seeded change in a scratch worktree (tests pass, demo fails with it and passes without), then runs the check on it
ID=$1; PROP=$2; PATCH=$(realpath $3); DEMO=$(realpath $4); TIER=${5:-quick}
W=/tmp/sv-$ID; git -C /repo worktree remove --force $W 2>/dev/null; rm -rf $W
git -C /repo worktree add --detach $W HEAD >/dev/null 2>&1 || { echo "worktree failed"; exit 2; }
mkdir -p /tmp/sv-demo-$ID; cp $DEMO /tmp/sv-demo-$ID/demo.py
cd $W
echo "--- demo on the unchanged tree (expect 0)"; (cd /tmp/sv-demo-$ID && PYTHONPATH=$W /venv/bin/python -W ignore demo.py >/tmp/sv-demo-$ID/clean.out 2>&1; echo "exit=$?"; tail -2 /tmp/sv-demo-$ID/clean.out)
git apply $PATCH || { echo "PATCH DID NOT APPLY"; cd /; git -C /repo worktree remove --force $W; exit 2; }
echo "--- test suite with the change"; PYTHONPATH=$W /venv/bin/python -W ignore -m pytest -q -p no:cacheprovider simfile 2>&1 | tail -1
echo "--- demo with the change (expect 1)"; (cd /tmp/sv-demo-$ID && PYTHONPATH=$W /venv/bin/python -W ignore demo.py >/tmp/sv-demo-$ID/mut.out 2>&1; echo "exit=$?"; tail -3 /tmp/sv-demo-$ID/mut.out)
echo "--- check $PROP ($TIER) with the change"
VERIF_REPO=$W /verif/run.py $PROP --tier $TIER > /tmp/sv-demo-$ID/check.out 2>&1; echo "check exit=$?"
grep -c "^VIOLATION" /tmp/sv-demo-$ID/check.out; grep "^VIOLATION\|tier=" /tmp/sv-demo-$ID/check.out | head -4
cd /; git -C /repo worktree remove --force $W; rm -rf /tmp/sv-demo-$ID
