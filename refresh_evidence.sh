#!/bin/sh
# Re-runs every quick check on /repo itself (never with VERIF_REPO) and validates MANIFEST + evidence.
cd "$(dirname "$0")"
unset VERIF_REPO
rc=0
for p in C01 C02 C03 C04 C05 C06 C07 C08 C09 C10 C11 C12 C13 C14 C15 C16 C17 C18 C19 C20; do
  ./run.py $p --tier ${1:-quick} > .scratch/refresh_$p.log 2>&1; e=$?
  echo "$p exit=$e $(grep 'tier=' .scratch/refresh_$p.log | tail -1)"
  [ $e -ne 0 ] && rc=1
done
python3-vt validate.py | grep -v " ok$"
exit $rc
