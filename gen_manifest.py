#!/usr/bin/env python3
"""Regenerates MANIFEST.json from the table below (kept next to the harnesses so the two cannot drift)."""
import json, os
V = os.path.dirname(os.path.abspath(__file__))
SYMX = ("bounded symbolic execution of the repository's real Python code (symx: re-execution DSE with solver-backed "
        "Fraction/float/Decimal/int stand-ins), z3 decides every branch and the final assertion; counterexamples replayed on the unshimmed code")
XH = ("bounded symbolic execution of the real byte code with CrossHair 0.0.110 + z3 (symbolic str/int/bool), one solver-checked "
      "PEP-316 contract per obligation; counterexamples replayed in plain Python")
NOTE_SYMX = ("trusted: z3, the symx stand-ins (validated by the concrete differential run of the repository's own tests and by replay of every "
             "counterexample on the real types), floats modelled as exact reals; bounds and cuts are listed in the evidence file")
NOTE_XH = ("trusted: z3, CrossHair's string/int models (one engine defect in rstrip worked around and self-tested), the msdparser "
           "tokenizer/escaper and Python codecs/OS as environment (model filesystem); bounds and cuts are listed in the evidence file")
CHECKS = {}
NA = {}


def add(i, eng, ref, text):
    CHECKS[i] = (eng, ref, text)


add("C07", "symx", "4/C07", "ordering operators decided for all field values (unbounded); beat placement decided for symbolic player/measure index and keysound digits on enumerated measure skeletons; whole-text decoding over 6 classes of white-space decoration by solver-guided case split (768 layouts x eol x last cell); scanning of symbolic characters is outside")
add("C08", "symx", "4/C08", "from_notes -> iterate round trip and canonical layout for 1-2 (thorough 3) notes with symbolic numerators over concrete denominators and symbolic players 0..2; solver acts mostly as a pruning enumerator of positions")
add("C09", "symx", "4/C09", "group_notes / count_* equal a declarative two-pass reference on every stream of 3 (thorough 4) notes: kinds and columns by exhaustive case split, beats symbolic with all tie patterns, whole option space; include_note_types over every subset of the five kinds (2 notes)")
add("C10", "symx", "4/C10", "ungroup(group(s)) restores the stream for every stream of 3 (thorough 4) notes and every option tuple, and for 3 notes over every member of the NoteType enum; hand-built note-inside-hold sequences with symbolic beats")
add("C11", "symx", "4/C11", "time_at equals the closed-form timeline for every placement of <=3 (thorough 4) events on the tick grid, all BPM values in [1,2000], all lengths/offsets, all 7 tags; monotonicity, offset shift, redundant BPM, bpm_at, independence from one arbitrary earlier lookup on the same engine; bpm_at also with IEEE-faithful floats")
add("C12", "symx", "4/C12", "beat_at/time_at round trip, pause interior, half-tick proximity, warp instants, monotonicity and independence from earlier events, for every placement of <=2 events plus three-warp chains (thorough 3 events) with concrete BPM sets and times on a fine integer grid")
add("C13", "symx", "4/C13", "hittable equals the warp-union rule for every placement of <=3 (thorough 4) events; time_notes output decided for 1-2 symbolic notes in (player, beat) order x 3 options; hittable also with IEEE-faithful floats (positions pinned where a beat becomes a double); head/tail pairs on one lane")
add("C14", "symx", "4/C14", "Beat construction, snapping (any real x, and x = n/d for 11 concrete denominators with every residue class of n), operator overrides, 3-decimal text round trip for ALL integers, BeatValues/TimingData string round trips with symbolic ticks and 6-place decimals")

add("C01", "xh", "4/C01", "SM serialize->parse round trip decided at parameter level for symbolic keys (literal-derived key set), arbitrary Unicode values <=3 (incl. None), chart fields, extra components and one edit step (13 operations, from states that may already have been serialized); escaping decided by the escapes_real family (real msdparser serializer and lexer on 28 tricky values at 12 sites - exhaustive concrete enumeration, labelled so); auto-detection with the real tokenizer on concrete values")
add("C02", "xh", "4/C02", "SSC round trip at parameter level with nondeterministic object identity (alias bits), NOTES/NOTES2 at every position, multi-value properties (incl. key-only), stand-alone chart parsing, 11 mapping operations on charts/simfiles that may already have been serialized; escaping decided by the escapes_real family (real msdparser, 28 values x 10 sites, concrete enumeration)")
add("C03", "xh", "4/C03", "the documented loading rules decided on parameter streams with two symbolic parameters (key spelling, shape, components <=2 chars) against a functional specification; entry-point agreement, format detection (symbolic name suffix as a unit) and strictness on 9 concrete texts")
add("C04", "xh", "4/C04", "parse -> serialize -> parse -> serialize on parameter streams with a symbolic component (incl. NOTES2 next to NOTES); five corpus files through the real tokenizer; escapes_real family (real msdparser, concrete enumeration) for 'can always be serialized'")
add("C05", "xh", "4/C05", "encoding choice for every decode-outcome vector and order; mutate over the model filesystem for every output/backup configuration and 7 edit operations with symbolic values: what is written, where, in which encoding; plus a byte-level family on Python's real codecs (11 byte contents x orders x configurations), which is exhaustive concrete enumeration and labelled so")
add("C06", "xh", "4/C06", "body exceptions of every class at 3 positions, four kinds of save failure, and a fault at the k-th filesystem operation for symbolic k after each of 7 kinds of body edit (incl. none and in-place chart edits): input intact, backup complete, the original survives somewhere; name clashes refused before anything is written")
add("C15", "symx", "4/C15", "timing_source / TimingData / displaybpm decided with the emptiness of all present chart timing properties symbolic (2^11), 4 absence patterns, 7 versions, all kinds, 8x8 DISPLAYBPM classes")
add("C16", "symx", "4/C16", "sm_to_ssc with symbolic signed BPM/stop values and ticks, optional keys, 0..2 charts, 3 template variants; timing (incl. warps) and notes identical on both sides as read by the library; text loads back equal (real tokenizer, concrete)")
add("C17", "symx", "4/C17", "ssc_to_sm for all 5^5 behaviour mappings (lazy case split), default-ness of every present SSC-only property symbolic, presence patterns, five WARPS classes (absent, empty, positive / zero / negative lengths), templates; two-call sequences; sm->ssc->sm round trip; chart values that coincide with simfile-level / template values (mirror family)")
add("C18", "xh", "4/C18", "one inductive step from every pre-state over 4 key roles: 7 (kind, property) cases x 15 operations against a dict model, re-checked after serialization (a read must not change the object); equality sees the mapping (same keys in another order with position-aligned values); SM chart refusals (14 operations)")
add("C19", "xh", "4/C19", "extension classification for every printable suffix <=4 (unit) and directory/pack discovery over model trees of <=3 entries from representatives (logic), kwargs pass-through (stray text independently per file kind), opendir/openpack agreement; conformance scenarios model vs MemoryFS vs native (a deviation of the native layer alone is a violation)")
add("C20", "xh", "4/C20", "asset patterns: z3 regex equivalence of the presets with the documented predicate for all stems (unbounded) + CrossHair on matches(); lookup logic over model directories x 8 specification classes, incl. names that match two kinds at once and dot-less names that spell an extension; pack banner priority")

def main():
    checks = []
    for i in sorted(CHECKS):
        eng, ref, text = CHECKS[i]
        checks.append({
            "property_id": i,
            "quick_cmd": f"./run.py {i} --tier quick",
            "thorough_cmd": f"./run.py {i} --tier thorough",
            "evidence_file": f"/verif/evidence/{i}.json",
            "replay_cmd_template": f"./run.py {i} --replay {{path}}",
            "engine": eng,
            "level_claimed": {"category": "model_checking", "text": "bounded symbolic model checking of the real code: " + text, "design_ref": "DESIGN.md " + ref},
            "level_note": NOTE_SYMX if eng == "symx" else NOTE_XH,
            "technique": (SYMX if eng == "symx" else XH) + (" + z3 regular-expression equivalence on an encoding regenerated from the presets in the source" if i == "C20" else ""),
        })
    man = {
        "version": 1,
        "setup_cmd": "./setup.sh",
        "hooks": {"guard": "GARCIA_SIMFILE_VERIF", "enable": "none needed: the checks drive the repository through its own seams (filesystem= parameters, _parse(iterator), direct construction of TimingData); no source hook exists",
                  "baseline_off_cmd": "cd /repo && /venv/bin/python -m pytest -ra -q -p no:cacheprovider --timeout=900 --continue-on-collection-errors",
                  "source_commits": [], "add_only": True},
        "engines": [
            {"name": "symx", "path": "/verif/vlib/symx.py", "serves_properties": sorted(i for i in CHECKS if CHECKS[i][0] == "symx"),
             "kind_free_text": "dynamic symbolic execution by re-execution of the repository's modules (compiled from /repo on every run) with z3-backed numeric stand-ins"},
            {"name": "xh", "path": "/verif/vlib/xh.py", "serves_properties": sorted(i for i in CHECKS if CHECKS[i][0] == "xh"),
             "kind_free_text": "CrossHair (symbolic execution of Python byte code with z3) driven per obligation"},
        ],
        "checks": checks,
        "not_applicable": [{"property_id": i, "reason": NA[i]} for i in sorted(NA) if i not in CHECKS],
        "notes": "exit 3 = harness error (blind or broken check); inconclusive obligations are listed in the evidence and never counted as discharged. known_findings.json lists recorded genuine defects.",
    }
    json.dump(man, open(os.path.join(V, "MANIFEST.json"), "w"), indent=1)
    print("MANIFEST.json written:", len(checks), "checks,", len(man["not_applicable"]), "not applicable")


if __name__ == "__main__":
    main()
