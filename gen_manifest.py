#!/usr/bin/env python3
"""Regenerates MANIFEST.json from the table below (kept next to the harnesses so the two cannot drift)."""
import json, os
V = os.path.dirname(os.path.abspath(__file__))
SYMX = "bounded symbolic execution of the real Python code (symx: re-execution DSE, numeric shims) with z3 deciding every branch and the final assertion; counterexamples replayed on the unshimmed code"
XH = "bounded symbolic execution of the real byte code with CrossHair 0.0.110 + z3 (symbolic str/int/bool), one solver-checked PEP-316 contract per obligation; counterexamples replayed in plain Python"
CHECKS = {
 # id: (engine, design_ref, level text, level note)
}
def add(i, eng, ref, text, note):
    CHECKS[i] = (eng, ref, text, note)
