#!/bin/sh
# usage: mutpatch.sh <patch-file> <prop> [tier] [-R]  — run a check against a scratch copy of /repo with the patch applied
P=$(realpath $1); PROP=$2; TIER=${3:-quick}
D=$(mktemp -d /tmp/mutXXXX); cp -r /repo/simfile /repo/testdata $D/
(cd $D && patch -p1 -s $4 < $P) || { echo "PATCH DID NOT APPLY"; rm -rf $D; exit 2; }
(cd $D && /venv/bin/python -m pytest -q -p no:cacheprovider simfile 2>&1 | tail -1)
VERIF_REPO=$D /verif/run.py $PROP --tier $TIER > $D/out.txt 2>&1; echo "exit=$?"
grep -c "^VIOLATION" $D/out.txt; grep "^VIOLATION\|tier=\|KNOWN-FINDING" $D/out.txt | head -6
rm -rf $D
